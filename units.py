"""Registry: which units (real functions under contract) decide which property.

kind "verus": template rendered from /repo each run and proved by Verus (unbounded).
kind "kani" : harness crate rendered from /repo each run and checked by Kani/CBMC;
              complete=True only when the harness is loop-free over full-domain inputs
              (or every loop is bounded by operand width with unwinding assertions on).
kind "structural": an obligation discharged by the extractor itself (stated as such).
"""

UNITS = {
    "C08": [
        dict(kind="verus", name="c08_serve", template="specs/c05_serve.vrs",
             under_contract=["frag_clip"], vacuity=["frag_clip"],
             assumptions=["same template as unit c05_serve: the seq range that is tiled for a partially buffered version is (buffered row) ∩ (requested range) — the range handed to the chunker"]),
        dict(kind="verus", name="c08_needs", template="specs/c04_needs.vrs",
             under_contract=["frag_dedup_full", "frag_dedup_partial"], vacuity=["frag_dedup_full", "frag_dedup_partial"],
             assumptions=["same template as unit c04_needs: when a request over versions / seqs is cut down to what was not requested yet, what remains is exactly (requested) minus (already requested for that origin actor) — nothing of another actor is subtracted"]),
        dict(kind="structural", name="c08_row_bindings", check="row_bindings", file="crates/klukai-types/src/change.rs", fn="row_to_change",
             files=["crates/klukai-agent/src/api/peer/mod.rs", "crates/klukai-types/src/broadcast.rs", "crates/klukai-agent/src/agent/util.rs"],
             trusted=["same obligation as c05_row_bindings: the ranges a server tiles for a buffered version are the stored rows themselves (plain start_seq, end_seq columns, no aggregate), read from their own columns; rusqlite returns columns in SELECT order"]),
        dict(kind="structural", name="c08_chunker_ranges", check="chunker_ranges", file="crates/klukai-agent/src/api/peer/mod.rs", fn="handle_need",
             trusted=["syntactic comparison of the SQL parameter bindings with the chunker's (start, end) arguments (vx/structural.py chunker_ranges)"]),
        dict(kind="verus", name="c08_send", template="specs/c05_send.vrs",
         under_contract=["send_change_chunks"], vacuity=["send_change_chunks"],
         assumptions=["same template as unit c05_send: the whole send_change_chunks against the chunker's proved contract — what is SENT for a version/partial request tiles the requested range up to last_seq (consecutive ranges, first at the requested start, last ending at last_seq), the only skipped chunk being the empty whole-version one"]),
        dict(kind="verus", name="c08_chunker", template="specs/c08_chunker.vrs",
             under_contract=["ChunkedChanges::new", "ChunkedChanges::set_max_buf_size", "ChunkedChanges::next", "CrsqlSeq::add"],
             drivers=["collect_all"],
             vacuity=["new", "next", "collect_all"],
             assumptions=[
                 "precondition of new(): rows are Ok, seqs strictly increasing within [start_seq,last_seq], last_seq < u64::MAX, summed estimated size fits usize (SQL `ORDER BY seq` + `seq >= start AND seq <= end` at the call sites; not proved)",
                 "error rows: after Some(Err) nothing is promised (callers break)",
             ]),
        dict(kind="depcheck", name="depcheck_c08"),
        dict(kind="verus", name="c08_chunk_range_v", template="specs/c08_chunk_range.vrs",
             under_contract=["chunk_range"], vacuity=["chunk_range"],
             trusted=["step_by_map: std `RangeInclusive::step_by(n)` yields start, start+n, … while <= end, and `.map(f)` applies f to exactly those values in order (std adapter contract; the bounded Kani unit c08_chunk_range runs the real std adapters)",
                      "Ord::min on CrsqlDbVersion = the field's min (derived Ord on a one-field tuple struct)"],
             assumptions=["generic T instantiated with CrsqlDbVersion (the only instantiation: parallel_sync); the lazy iterator is viewed as the sequence it yields",
                          "precondition: end + chunk_size <= u64::MAX (versions are SQLite integers < 2^63) and chunk_size >= 1 (the call site passes 10)"]),
        dict(kind="kani", name="c08_chunk_range", crate="kani/c08_chunk_range",
             harnesses=[
                 dict(name="chunk_range_size10_len_le_45", bound="chunk size 10 (the call site's), range length <= 45, any start < 2^62"),
                 dict(name="chunk_range_symbolic_size_len_le_12", tier="thorough", bound="chunk size 1..=4, range length <= 12, any start < 2^62"),
             ],
             trusted=["generic T instantiated with u64 (CrsqlDbVersion delegates Step/Add/Ord to its field)", "std step_by / RangeInclusive iteration as compiled by Kani"],
             assumptions=["versions < 2^62 so block_start + chunk_size cannot overflow; chunk_size >= 1 (step_by panics on 0; the only call site passes 10)"]),
    ],
}

UNITS["C02"] = [
    dict(kind="structural", name="c02_seqmerge_params", check="seqmerge_params", file="crates/klukai-agent/src/agent/util.rs", fn="process_incomplete_version",
         trusted=["rusqlite named_params! binds by name"]),
    dict(kind="verus", name="c02_seqmerge", template="specs/c03_seqmerge.vrs",
         under_contract=["frag_merge", "frag_write_back"], vacuity=["frag_merge", "frag_write_back"],
         assumptions=["same template as unit c03_seqmerge: the persisted partial record (one row per maximal received range) equals the in-memory one after every chunk"]),
    dict(kind="structural", name="c02_commit_order", check="persist_before_publish", file="crates/klukai-agent/src/agent/util.rs", fn="process_multiple_changes",
         fns=["process_multiple_changes", "process_fully_buffered_changes"],
         trusted=["rusqlite: a Transaction dropped without commit() rolls back"]),
    dict(kind="depcheck", name="depcheck_c02"),
    dict(kind="structural", name="c02_from_conn", check="from_conn", file="crates/klukai-types/src/agent.rs", fn="from_conn", impl="^impl BookedVersions$",
         trusted=["insert_partial only raises the head (proved: unit c02_booked); the row loops visit every persisted row (rusqlite)"]),
    dict(kind="structural", name="c02_sql_scoping_store", check="sql_actor_scoping", file="crates/klukai-agent/src/agent/util.rs",
         trusted=["same obligation as c03_sql_scoping (the statements that persist, merge and clear the bookkeeping rows a restart reloads); heuristic SQL reading: WHERE levels are split at parenthesised sub-SELECTs; only the presence of an actor constraint is checked, not its parameter binding"]),
    dict(kind="structural", name="c02_sql_scoping", check="sql_actor_scoping", file="crates/klukai-types/src/agent.rs",
         trusted=["heuristic SQL reading (see c03_sql_scoping)"]),
    dict(kind="verus", name="c02_cleared_head", template="specs/c02_cleared_head.vrs",
         under_contract=["frag_cleared_head"], vacuity=["frag_cleared_head"],
         trusted=["process_empty_version -> crsql_set_db_version(actor, v) sets the persisted per-actor head to v (cr-sqlite extension, external)",
                  "opt_gt = derived PartialOrd on Option<CrsqlDbVersion>"],
         assumptions=["fragment = then-branch of `let known = if change.is_complete() && change.is_empty()`; `&tx` -> `&mut Tx` stand-in whose ghost view is crsql_db_versions; `.map_err(..)` (error wrapping) dropped",
                      "precondition in-memory head == persisted head is the C02 invariant itself (established by from_conn, unit c02_from_conn; maintained by this fragment and by cr-sqlite for non-empty versions — the latter is external)"]),
    dict(kind="verus", name="c02_insert_db", template="specs/c02_insert_db.vrs",
         under_contract=["VersionsSnapshot::insert_db", "lemma_decomposition_unique"], vacuity=["insert_db"],
         assumptions=["each literal SQL statement of insert_db is bound to a stand-in over a ghost table (DELETE by (actor,start,end) returns the row count; INSERT with PRIMARY KEY (actor_id,start)); `conn` is taken as &mut for the ghost table",
                      "compute_gaps_change is used through its contract (same text as proved in unit c02_gaps)",
                      "I/O errors: any SQL call may fail, nothing is promised on Err (the caller's transaction is rolled back)",
                      "versions are SQLite INTEGERs in 1..2^63-1; the diagnostic SELECT on the error path is dropped"]),
    dict(kind="verus", name="c02_sync", template="specs/c02_sync.vrs",
         under_contract=["frag_generate_sync_actor"], vacuity=["frag_generate_sync_actor"],
         assumptions=["per-actor body of generate_sync as a fragment (read guard -> stand-in struct; `continue` -> return); BTreeMap::iter().filter(closure) replaced by a contract stand-in that keeps the real closure body",
                      "PartialVersion::is_complete is used through its contract (same text as proved in unit c02_partial)"]),
    dict(kind="verus", name="c02_gaps", template="specs/c02_gaps.vrs",
         under_contract=["VersionsSnapshot::compute_gaps_change"], vacuity=["compute_gaps_change"],
         assumptions=["contract of rangemap::RangeInclusiveSet (insert/remove/get/overlapping/into_iter; lib/rangeset.vrs) and of HashSet<RangeInclusive> (set of (start,end) pairs)",
                      "versions are SQLite INTEGERs in 1..2^63-1"]),
    dict(kind="verus", name="c02_booked", template="specs/c02_booked.vrs",
         under_contract=["BookedVersions::contains_version", "BookedVersions::contains", "BookedVersions::contains_all", "BookedVersions::last", "BookedVersions::snapshot", "BookedVersions::commit_snapshot", "BookedVersions::insert_partial"],
         vacuity=["contains_version", "contains", "contains_all", "snapshot", "commit_snapshot", "insert_partial"],
         assumptions=["contracts of RangeInclusiveSet::{iter,extend}, Iterator::any, BTreeMap::entry/Vacant::insert/Occupied::get_mut, core::cmp::max on Option<newtype>, core::mem::take (lib/*.vrs)"]),
    dict(kind="verus", name="c02_partial", template="specs/c02_partial.vrs",
         under_contract=["PartialVersion::is_complete", "PartialVersion::full_range"],
         vacuity=["is_complete", "full_range"], replay="c02_partial",
         assumptions=["contract of rangemap::RangeInclusiveSet::gaps / Iterator::count (lib/rangeset.vrs), validated by depcheck (bounded)"]),
]

UNITS["C15"] = [
    dict(kind="structural", name="c15_tables_loop", check="loop_runs_to_end", file="crates/klukai-types/src/schema.rs", fn="apply_schema",
         header=r"\.intersection\(", obligation="every-table-in-both-schemas-reaches-the-index-comparison",
         trusted=["the fragments of c15_schema decide each rule; this decides that one pass of the loop body applies all of them to a table"]),
    dict(kind="structural", name="c15_ddl", check="schema_ddl", file="crates/klukai-types/src/schema.rs", fn="apply_schema",
         trusted=["syntactic reading of the statement texts and of the guard/branch pair (vx/structural.py schema_ddl)"]),
    dict(kind="structural", name="c15_reload", check="schema_reload", file="crates/klukai-types/src/schema.rs", fn="init_schema",
         trusted=["SQLite object names (tables, indexes) are unique within a database; __corro_schema.name holds them"]),
    dict(kind="structural", name="c15_atomic", check="schema_atomic", file="crates/klukai-agent/src/api/public/mod.rs", fn="execute_schema",
         trusted=["rusqlite: a Transaction dropped without commit() rolls back; SQLite DDL is transactional"]),
    dict(kind="verus", name="c15_schema", template="specs/c15_schema.vrs",
         under_contract=["frag_tables", "frag_columns", "frag_add_column", "frag_indexes", "frag_changed_index"], vacuity=["frag_tables", "frag_columns", "frag_add_column", "frag_indexes", "frag_changed_index"], replay="c15_schema",
         trusted=["key_difference = the idiom `A.keys().collect::<HashSet<_>>().difference(&B.keys().collect::<HashSet<_>>())`; filter_map_collect = `.iter().filter_map(f).collect::<HashMap<_,_>>()` with the real closure; derived PartialEq on Column is field-wise equality"],
         assumptions=["fragments of apply_schema wrapped as functions (return Err(..) kept, fall-through = Ok(())); names are a stand-in text type compared by identity; SQL AST payloads opaque"]),
]

UNITS["C12"] = [
    dict(kind="structural", name="c12_last_id", check="last_id_published", file="crates/klukai-types/src/pubsub.rs", fn="handle_candidates", impl=r"^impl Matcher\b",
         trusted=["tokio watch: a value sent is what `borrow()` returns next; catch_up_sub reads it through MatcherHandle::last_change_id_sent"]),
    dict(kind="structural", name="c12_snapshot_label", check="snapshot_label", file="crates/klukai-types/src/pubsub.rs", fn="all_rows", impl=r"^impl MatcherHandle\b",
         trusted=["SQLite: two statements on one read transaction see one state; `changes.id` is the change id"]),
    dict(kind="structural", name="c12_cursor", check="cursor_writers", file="crates/klukai-client/src/sub.rs", fn="(whole file)",
         trusted=["struct-literal initialisation in the constructor is not an assignment; handle_change / handle_eoq are proved in unit c12_client"]),
    dict(kind="structural", name="c12_lag_stops", check="sub_lag_stops", file="crates/klukai-agent/src/api/public/pubsub.rs", fn="forward_sub_to_sender",
         trusted=["tokio broadcast: a receiver that fell behind gets RecvError::Lagged before any later event; mpsc try_send fails iff the buffer is full or closed"]),
    dict(kind="verus", name="c12_server", template="specs/c12_server.vrs",
         under_contract=["frag_catch_up_retries", "frag_hand_over", "frag_since_init", "frag_since_step", "lemma_append_run"], vacuity=["frag_catch_up_retries", "frag_hand_over", "frag_since_init", "frag_since_step"],
         trusted=["catch_up_sub_from / Matcher::changes_since: forwards every retained change with id > from in ascending order and returns the largest id read (SQL `WHERE id > ? ORDER BY id ASC`); the retained change log has no gap above the resume point",
                  "EvtTx::send / send_error: the mpsc sender towards the HTTP body, viewed as the sequence of change ids written"],
         assumptions=["fragments of the async fn catch_up_sub wrapped as functions: `.await` dropped on the stand-in calls, tracing macros and the 100 ms sleep dropped, `return;` -> return Exit::Return with the locals",
                      "the live events buffered during the catch-up read carry consecutive ids (Matcher numbering: +1 per event) — stated as the fragments' precondition"]),
    dict(kind="verus", name="c12_client", template="specs/c12_client.vrs",
         under_contract=["SubscriptionStream::handle_change", "SubscriptionStream::handle_eoq", "ChangeId::add"],
         drivers=["accept_all"],
         vacuity=["handle_eoq", "handle_change", "accept_all"],
         assumptions=["change ids < u64::MAX (they are SQLite INTEGER values); the client-library clause; the server clause is decided by units c12_server / c12_lag_stops"]),
]

UNITS["C18"] = [
    dict(kind="verus", name="c18_remove", template="specs/c18_remove.vrs",
         under_contract=["Members::remove_member", "Members::add_member", "MemberState::new", "MemberState::is_ring0", "lemma_follows", "lemma_step_other", "lemma_step_up", "lemma_step_down", "lemma_newest_bounds"],
         vacuity=["remove_member", "add_member", "new", "is_ring0", "lemma_follows"], replay="c18_members",
         assumptions=["std BTreeMap contract (lib/maps.vrs); derived PartialEq on Timestamp is field equality",
                      "whole-history lemma: premises about the SWIM layer (spec fn swim): an up is never older than an identity already reported down for that peer; a down is about an identity reported up before; the table starts empty"]),
    dict(kind="verus", name="c18_add_rtt", template="specs/c18_add_rtt.vrs",
         under_contract=["Members::add_rtt"], vacuity=["add_rtt"], replay="c18_members",
         assumptions=["contracts of std Duration::{as_secs,subsec_millis}, BTreeMap::entry().or_default(), CircularBuffer::push_front; recalculate_rings' frame (checked by the Kani unit)"]),
    dict(kind="kani", name="c18_members", crate="kani/c18_members",
         harnesses=[
             dict(name="remove_member_contract", bound="<=2 existing members, ids/addrs over 4 values, ts/cluster full u64/u16; inductive step from an arbitrary state"),
             dict(name="add_member_contract", bound="<=2 existing members, ids/addrs over 4 values, ts/cluster full u64/u16; inductive step from an arbitrary state"),
             dict(name="add_member_keeps_address_index", bound="same"),
             dict(name="recalculate_rings_contract", bound="<=2 members, <=3 recorded samples (< 2^20 ms) for one address"),
             dict(name="ring0_contract", bound="<=2 members"),
         ],
         trusted=["stand-in: array-backed map for std BTreeMap (capacity 3)", "stand-in: array ring buffer for circular_buffer::CircularBuffer",
                  "stand-in newtypes for ActorId/SocketAddr/ClusterId/Timestamp (Timestamp::to_duration monotone)"],
         replay="c18_members",
         assumptions=["SWIM premise: two live peers never announce the same address; a down notification carries the identity's own address"]),
]

UNITS["C04"] = [
    dict(kind="structural", name="c04_loops", check="loops_unfiltered", file="crates/klukai-types/src/sync.rs", fn="compute_available_needs", impl="^impl SyncStateV1$",
         trusted=["std iterators: `.iter()` / `.overlapping(..)` yield every element; an adapter-free `for` visits each yielded element unless the body exits early (early exits: unit c04_exits)"]),
    dict(kind="kani", name="c04_chunk_range", crate="kani/c08_chunk_range",
         harnesses=[
             dict(name="chunk_range_size10_len_le_45", bound="chunk size 10 (the call site's), range length <= 45, any start < 2^62"),
             dict(name="chunk_range_symbolic_size_len_le_12", tier="thorough", bound="chunk size 1..=4, range length <= 12, any start < 2^62"),
         ],
         trusted=["same harness crate as c08_chunk_range: a Full need is cut into sub-ranges by chunk_range before it is sent; their union is the need (bounded)", "generic T instantiated with u64 (CrsqlDbVersion delegates Step/Add/Ord to its field)", "std step_by / RangeInclusive iteration as compiled by Kani"],
         assumptions=["versions < 2^62 so block_start + chunk_size cannot overflow; chunk_size >= 1 (step_by panics on 0; the only call site passes 10)"]),

    dict(kind="depcheck", name="depcheck_c04"),
    dict(kind="verus", name="c04_needs", template="specs/c04_needs.vrs",
         under_contract=["frag_skip", "frag_full", "frag_missing", "frag_other_haves", "frag_other_seqs_haves", "frag_partial_seqs", "frag_dedup_full", "frag_dedup_partial"],
         vacuity=["frag_skip", "frag_full", "frag_missing", "frag_other_haves", "frag_other_seqs_haves", "frag_partial_seqs", "frag_dedup_full", "frag_dedup_partial"],
         assumptions=["fragments of compute_available_needs are wrapped as functions over their free variables (self -> this, `continue` -> return Exit::Continue)",
                      "contracts of RangeInclusiveSet::overlapping, HashMap::{get,entry().or_default()}, cmp::{max,min} on &newtype (lib/*.vrs)",
                      "NOT under contract: the flat_map/collect closure chain that intersects our missing seqs with the peer's held seqs, and the max-end computation"]),
]

UNITS["C17"] = [
    dict(kind="verus", name="c17_pool_config", template="specs/c17_pool_config.vrs",
         under_contract=["Config::read_only", "Config::max_size", "frag_read_pool"], vacuity=["read_only", "max_size", "frag_read_pool"],
         trusted=["Config::new gives the default (read-write) open flags and the path as passed (body builds deadpool values; assumed)",
                  "create_pool_transform opens every connection of the pool with Config.open_flags (deadpool Manager / rusqlite open_with_flags; external)",
                  "OpenFlags stand-in carries SQLite's C constants (READ_ONLY 0x1, READ_WRITE 0x2, CREATE 0x4, URI 0x40, NO_MUTEX 0x8000) and rusqlite's default READ_WRITE|CREATE|URI|NO_MUTEX",
                  "SQLite refuses writes on a connection opened with SQLITE_OPEN_READ_ONLY"],
         assumptions=["`mut self` builder methods: `self` renamed to a mutable local (Verus has no `mut self`); PathBuf/Timeouts/QueueMode are opaque values",
                      "fragment = the `let ro_pool = …` statement of SplitPool::create; `?` dropped (the Err case promises nothing)"]),
    dict(kind="kani", name="c17_token", crate="kani/c17_token",
         harnesses=[dict(name="token_decision_len2", bound="configured token and presented token: printable ASCII, length <= 2 each (prefix / suffix / empty cases are inside the bound)"),
                    dict(name="token_decision_len3", tier="thorough", bound="same, length <= 3")],
         trusted=["stand-ins for Agent::config, TypedHeader::token, axum StatusCode; real String/&str comparison as compiled by Kani"],
         assumptions=["helper functions called by the fragment are imported verbatim from the same file on demand"]),
    dict(kind="verus", name="c17_authz", template="specs/c17_authz.vrs",
         under_contract=["require_authz", "frag_readonly_guard"], vacuity=["require_authz", "frag_readonly_guard"],
         assumptions=["String/&str token comparison replaced by a stand-in text type whose == is sequence equality",
                      "header extraction (axum TypedHeader<Authorization<Bearer>>) is outside the contract; `async`/`.await` dropped from require_authz (it awaits nothing but the inner handler); Request reduced to method and path"]),
    dict(kind="structural", name="c17_routes", check="authz_layer", file="crates/klukai-agent/src/agent/util.rs", fn="setup_http_api_handler",
         trusted=["axum contract: Router::layer wraps every route added before it (and none added after)"]),
    dict(kind="structural", name="c17_readpool", check="read_pool", file="crates/klukai-types/src/agent.rs", fn="create", impl="^impl SplitPool$",
         trusted=["sqlite_pool::Config::read_only opens connections with SQLITE_OPEN_READ_ONLY"]),
    dict(kind="structural", name="c17_sub_select", check="sub_select_only", file="crates/klukai-types/src/pubsub.rs", fn="new", impl=r"^impl Matcher\b",
         trusted=["sqlite3_parser::Parser yields the first command of the text; preparing a statement (sqlite3_prepare) does not run it; statements run later by the matcher are printed from the parsed SELECT (Cmd::Stmt(stmt).to_string())", "a SELECT calling an extension function with side effects does run on the matcher's read-write connection, but every use of that connection in the matcher sits inside a transaction that is dropped, never committed (probed on the unchanged code: findings/C17-subscription-probe, 60 subscription and 73 query statements, no persistent change) — not an obligation here"]),
    dict(kind="structural", name="c17_readonly", check="readonly_guard", file="crates/klukai-agent/src/api/public/mod.rs", fn="build_query_rows_response",
         trusted=["rusqlite Statement::readonly == sqlite3_stmt_readonly; SQLITE_OPEN_READ_ONLY pool connections"]),
]

UNITS["C16"] = [
    dict(kind="structural", name="c16_fresh_id", check="cluster_id_fresh", file="crates/klukai-agent/src/agent/handlers.rs", fn="spawn_incoming_connection_handlers",
         trusted=["syntactic reading of the three sites (vx/structural.py cluster_id_fresh); Agent::cluster_id() loads the current value (ArcSwap)"]),
    dict(kind="verus", name="c16_add_member", template="specs/c18_remove.vrs",
         under_contract=["Members::add_member"], vacuity=["add_member"],
         assumptions=["same template as unit c18_remove: unbounded proof that a newer identity replaces address, timestamp AND cluster id in the member table (what the sync-candidate and broadcast-target filters read); `or_insert_with` desugared to the entry match; recalculate_rings by its frame contract"]),
    dict(kind="kani", name="c16_members", crate="kani/c18_members",
         harnesses=[dict(name="add_member_contract", tier="thorough", bound="<=2 existing members, ids/addrs over 4 values, ts/cluster full u64/u16; inductive step from an arbitrary state")],
         trusted=["same stand-ins as unit c18_members"],
         assumptions=["the member table's cluster id is what the sync-candidate and broadcast-target filters read: a newer identity's cluster must replace the old one"]),
    dict(kind="verus", name="c16_uni_stream", template="specs/c16_uni_stream.vrs",
         under_contract=["frag_uni_stream"], vacuity=["frag_uni_stream"],
         trusted=["Framed::next_frame (FramedRead<RecvStream, LengthDelimitedCodec> + StreamExt::next: yields the stream's frames in order, one per call)",
                  "UniPayload::read_from_buffer (speedy derived codec: a function of the frame bytes)"],
         assumptions=["fragment = from `let mut changes = vec![]` to the end of the receive loop of the spawned per-stream task; `.await` on next() dropped, tracing/metrics macros dropped",
                      "what happens to `changes` after the loop (process_multiple_changes) is the ingest path covered by C10/C03 units"]),
    dict(kind="verus", name="c16_cluster", template="specs/c16_cluster.vrs",
         under_contract=["frag_uni_dispatch", "frag_serve_sync_prologue", "frag_sync_candidate", "frag_broadcast_target"], vacuity=["frag_uni_dispatch", "frag_serve_sync_prologue", "frag_sync_candidate", "frag_broadcast_target"],
         assumptions=["fragments wrapped as functions (continue -> return Exit::Continue; return Ok(0) -> Returned(0)); `.instrument(..).await` dropped from the one awaited call, whose effect is a ghost log of written messages",
                      "speedy #[default_on_eof] on cluster_id decodes an absent field to ClusterId(0) (assumed)",
                      "the node's own cluster id is read per frame through a closure (unit c16_fresh_id decides that no copy taken at accept time is used)"]),
]

UNITS["C05"] = [
    dict(kind="structural", name="c05_row_bindings", check="row_bindings", file="crates/klukai-types/src/change.rs", fn="row_to_change",
         files=["crates/klukai-agent/src/api/peer/mod.rs", "crates/klukai-types/src/broadcast.rs", "crates/klukai-agent/src/agent/util.rs"],
         trusted=["rusqlite returns columns in SELECT order; syntactic reading of the SELECT lists (vx/structural.py row_bindings)"]),
    dict(kind="structural", name="c05_flags", check="exists_binding", file="crates/klukai-agent/src/api/peer/mod.rs", fn="handle_need",
         trusted=["rusqlite binds named parameters by name and returns columns in SELECT order"]),
    dict(kind="structural", name="c05_chunker_ranges", check="chunker_ranges", file="crates/klukai-agent/src/api/peer/mod.rs", fn="handle_need",
         trusted=["syntactic comparison of the SQL parameter bindings with the chunker's (start, end) arguments (vx/structural.py chunker_ranges)"]),
    dict(kind="structural", name="c05_snapshot", check="single_snapshot", file="crates/klukai-agent/src/api/peer/mod.rs", fn="handle_need",
         trusted=["rusqlite Connection::transaction opens a DEFERRED transaction whose first read pins one WAL snapshot until it is dropped (SQLite)"]),
    dict(kind="depcheck", name="depcheck_c05"),
    dict(kind="structural", name="c05_sql_scoping", check="sql_actor_scoping", file="crates/klukai-agent/src/api/peer/mod.rs",
         trusted=["heuristic SQL reading (see c03_sql_scoping)"]),
    dict(kind="verus", name="c05_send", template="specs/c05_send.vrs",
         under_contract=["send_change_chunks", "frag_declare_empties"], vacuity=["send_change_chunks", "frag_declare_empties"],
         assumptions=["ChunkedChanges is used through its contract only (proved on the real code in unit c08_chunker)",
                      "`sender` is taken as &mut so that the ghost log of sent messages can be stated; eyre::bail!(..) -> return Err(..); Instant/Duration are stand-ins"]),
    dict(kind="verus", name="c05_serve", template="specs/c05_serve.vrs",
         under_contract=["frag_prefilter", "frag_empties_full", "frag_empties_partial", "frag_clip", "frag_full_first_stage", "lemma_sql_selects_iff_overlap"],
         vacuity=["frag_prefilter", "frag_empties_full", "frag_empties_partial", "frag_clip", "frag_full_first_stage"],
         assumptions=["fragments wrapped as functions; `continue` -> return Exit::Continue; Option::is_some_and / RangeInclusive::all replaced by contract stand-ins with the real closures kept (closure ensures spliced)",
                      "`buffered` / `in_gaps` are the results of the two EXISTS sub-queries: their binding (name <-> alias <-> table and filter <-> parameters) is decided by unit c05_flags; what SQLite returns for them is not interpreted",
                      "SQL WHERE fragment translated by vx/sqlpred.py; SQLite integer comparison treated as mathematics"]),
]

UNITS["C03"] = [
    dict(kind="structural", name="c03_row_bindings", check="row_bindings", file="crates/klukai-types/src/change.rs", fn="row_to_change",
         files=["crates/klukai-agent/src/api/peer/mod.rs", "crates/klukai-types/src/broadcast.rs", "crates/klukai-agent/src/agent/util.rs"],
         trusted=["rusqlite returns columns in SELECT order; syntactic reading of the SELECT lists (vx/structural.py row_bindings)"]),
    dict(kind="structural", name="c03_seqmerge_params", check="seqmerge_params", file="crates/klukai-agent/src/agent/util.rs", fn="process_incomplete_version",
         trusted=["rusqlite named_params! binds by name"]),
    dict(kind="verus", name="c03_ingest", template="specs/c10_ingest.vrs",
         under_contract=["frag_drop_oldest", "frag_suppress", "frag_cache_insert"], vacuity=["frag_drop_oldest", "frag_suppress", "frag_cache_insert"],
         assumptions=["same template as unit c10_ingest: a chunk shed from the queue is forgotten by the seen-cache (its own seqs, under its own actor), so that the peer's answer to the resulting partial need is accepted and the transaction can complete"]),
    dict(kind="structural", name="c03_chunker_ranges", check="chunker_ranges", file="crates/klukai-agent/src/api/peer/mod.rs", fn="handle_need",
         trusted=["syntactic comparison of the SQL parameter bindings with the chunker's (start, end) arguments (vx/structural.py chunker_ranges)"]),
    dict(kind="structural", name="c03_commit_order", check="persist_before_publish", file="crates/klukai-agent/src/agent/util.rs", fn="process_multiple_changes",
         fns=["process_multiple_changes", "process_fully_buffered_changes"],
         trusted=["rusqlite: a Transaction dropped without commit() rolls back"]),
    dict(kind="structural", name="c03_from_conn", check="from_conn", file="crates/klukai-types/src/agent.rs", fn="from_conn", impl="^impl BookedVersions$",
         trusted=["same check as c02_from_conn: after a restart the partial records (received seq ranges, last_seq) are rebuilt from the columns that hold them, so `is_complete` keeps deciding visibility on the true last_seq"]),
    dict(kind="verus", name="c03_send", template="specs/c05_send.vrs",
         under_contract=["send_change_chunks"], vacuity=["send_change_chunks"],
         assumptions=["same template as unit c05_send: the whole send_change_chunks against the chunker's proved contract — what is SENT for a version/partial request tiles the requested range up to last_seq (consecutive ranges, first at the requested start, last ending at last_seq), the only skipped chunk being the empty whole-version one"]),
    dict(kind="verus", name="c03_clear", template="specs/c03_clear.vrs",
         under_contract=["frag_clear_done"], vacuity=["frag_clear_done"],
         assumptions=["SQLite: a DELETE limited to n rows that removed fewer than n rows left no matching row; usize addition in the log line dropped with the macro"]),
    dict(kind="depcheck", name="depcheck_c03"),
    dict(kind="structural", name="c03_sql_scoping", check="sql_actor_scoping", file="crates/klukai-agent/src/agent/util.rs",
         trusted=["heuristic SQL reading: WHERE levels are split at parenthesised sub-SELECTs; only the presence of an actor constraint is checked, not its parameter binding"]),
    dict(kind="verus", name="c03_seqmerge", template="specs/c03_seqmerge.vrs",
         under_contract=["frag_merge", "frag_write_back", "lemma_sql_merges_iff_overlap_or_adjacent", "lemma_interval_is_one_range"], vacuity=["frag_merge", "frag_write_back"],
         assumptions=["the DELETE … RETURNING returns exactly the stored rows satisfying its WHERE clause (SQLite); stored rows are well-ordered and non-negative",
                      "SQL WHERE fragment translated by vx/sqlpred.py (a bare column in a condition is read as `!= 0`)"]),
    dict(kind="verus", name="c03_triggers", template="specs/c03_triggers.vrs",
         under_contract=["frag_after_commit", "frag_apply_guard", "frag_startup"], vacuity=["frag_after_commit", "frag_apply_guard", "frag_startup"],
         assumptions=["contract of RangeInclusiveSet::gaps / Iterator::count (validated by depcheck, bounded)"]),
    dict(kind="verus", name="c03_batch", template="specs/c03_batch.vrs",
         under_contract=["frag_seen_in_batch"], vacuity=["frag_seen_in_batch"],
         assumptions=["RangeInclusiveMap<version, Option<PartialVersion>> stand-in (lookup per version); Iterator::all/any over version / seq ranges replaced by contract stand-ins that keep the real closures"]),
    dict(kind="verus", name="c03_changeset", template="specs/c03_changeset.vrs",
         under_contract=["Changeset::is_complete", "Changeset::is_empty", "Changeset::seqs", "Changeset::versions", "Changeset::last_seq"],
         vacuity=["Changeset::is_complete"],
         assumptions=["Change payloads are opaque; Timestamp/ActorId are opaque newtypes"]),
]

UNITS["C10"] = [
    dict(kind="verus", name="c10_batch_dedup", template="specs/c10_batch_dedup.vrs",
         under_contract=["frag_batch_dedup"], vacuity=["frag_batch_dedup"],
         trusted=["std HashSet::insert returns false iff an equal key is already present", "Option<&T>::cloned copies the referenced value"],
         assumptions=["fragment = the in-batch duplicate test of process_multiple_changes (`let versions … if !seen.insert(KEY) { continue; }`); the obligation is on KEY: derived from this changeset and identifying exactly one (actor, version range, seq range) triple; key components that are single versions / seqs pin one end only"]),
    dict(kind="structural", name="c10_sql_scoping", check="sql_actor_scoping", file="crates/klukai-agent/src/agent/util.rs",
         trusted=["heuristic SQL reading (see c03_sql_scoping): buffered chunks of one actor are never deleted or rewritten by a statement selecting on another actor's (version, seq)"]),
    dict(kind="structural", name="c10_apply_trigger", check="apply_trigger_waits", file="crates/klukai-agent/src/agent/util.rs", fn="process_multiple_changes",
         trusted=["tokio mpsc: `send(..).await` waits for room and delivers unless the receiver is gone; the applier loop (handle_changes' sibling in run_root / handlers) consumes tx_apply for the life of the agent"]),
    dict(kind="structural", name="c10_apply_trigger_boot", check="apply_trigger_waits", file="crates/klukai-agent/src/agent/run_root.rs", fn="run",
         trusted=["same obligation for the triggers re-created at start-up for versions found fully buffered"]),
    dict(kind="structural", name="c10_from_conn", check="from_conn", file="crates/klukai-types/src/agent.rs", fn="from_conn", impl="^impl BookedVersions$",
         trusted=["same obligation as c02_from_conn: what a restart reloads as 'held seqs' of a buffered version is what was recorded (start_seq..=end_seq), so a shed chunk is not claimed after a restart"]),
    dict(kind="structural", name="c10_seq_guard", check="seq_range_guard", file="crates/klukai-agent/src/agent/handlers.rs", fn="handle_changes",
         trusted=["rangemap 1.6 RangeInclusiveMap::insert/remove assert start <= end (validated by depcheck: insert panics on an inverted range)"]),
    dict(kind="structural", name="c10_offer_loops", check="offer_loops", file="crates/klukai-agent/src/agent/util.rs", fn="process_multiple_changes",
         trusted=["syntactic reading of the loop nest (vx/structural.py offer_loops); `?`/`return Err` exits roll the transaction back and surface an error"]),
    dict(kind="verus", name="c10_contains", template="specs/c02_booked.vrs",
         under_contract=["BookedVersions::contains", "BookedVersions::contains_all", "BookedVersions::contains_version"], vacuity=["contains", "contains_all"],
         assumptions=["same template as unit c02_booked; `RangeInclusive::all(closure)` / `Option::map(closure).unwrap_or(d)` through lib/rangeall.vrs stand-ins and the Option-combinator desugaring"]),
    dict(kind="depcheck", name="depcheck_c10"),
    dict(kind="verus", name="c10_ingest", template="specs/c10_ingest.vrs",
         under_contract=["frag_suppress", "frag_drop_oldest", "frag_cache_insert", "frag_cleared_decision", "frag_known_skip_in_tx"],
         vacuity=["frag_suppress", "frag_drop_oldest", "frag_cache_insert", "frag_cleared_decision", "frag_known_skip_in_tx"],
         assumptions=["fragments of the tokio::select! ingest loop wrapped as functions; let-chains desugared; `continue` -> return Exit::Continue",
                      "IndexMap / VecDeque / Iterator::all replaced by contract stand-ins that keep the real closures"]),
]

UNITS["C14"] = [
    dict(kind="depcheck", name="depcheck_c14"),
    dict(kind="structural", name="c14_row_binding", check="updates_row_binding", file="crates/klukai-types/src/updates.rs", fn="match_changes_from_db_version",
         trusted=["rusqlite returns columns in SELECT order"]),
    dict(kind="structural", name="c14_lag_stops", check="lagged_arm_returns", file="crates/klukai-agent/src/api/public/update.rs", fn="forward_update_bytes_to_body_sender",
         trusted=["tokio broadcast: a receiver that fell behind gets RecvError::Lagged(n) once and then continues after the n lost events"]),
    dict(kind="structural", name="c14_feeds", check="feeds_fed", file="crates/klukai-agent/src/agent/util.rs", fn="process_multiple_changes",
         sites=[("crates/klukai-agent/src/agent/util.rs", "process_multiple_changes", r"\btx\s*\.\s*commit\s*\("),
                ("crates/klukai-agent/src/agent/util.rs", "process_fully_buffered_changes", r"\btx\s*\.\s*commit\s*\("),
                ("crates/klukai-types/src/broadcast.rs", "broadcast_changes", None)],
         trusted=["broadcast_changes runs after the local transaction committed (unit c07_sequence); match_changes delivers to every attached matcher (channel delivery not decided)"]),
    dict(kind="verus", name="c14_updates", template="specs/c14_updates.vrs",
         under_contract=["frag_candidate", "frag_trim", "frag_parity", "frag_notify_batch", "frag_impactful"],
         vacuity=["frag_candidate", "frag_trim", "frag_parity", "frag_notify_batch", "frag_impactful"],
         assumptions=["IndexMap (ordered) stand-ins for the cl cache and the pending buffer; TableName opaque",
                      "monotonicity holds while a key stays in the 1000..2000-entry cache (eviction of the key ends the guarantee — part of the contract)",
                      "that both feeds are handed the committed changes on all three commit paths is decided by unit c14_feeds; NOT decided: channel delivery inside match_changes, unpack_columns of the pk (see C09)"]),
]

UNITS["C09"] = [
    dict(kind="verus", name="c09_roundtrip", template="specs/c09_roundtrip.vrs",
         under_contract=["Changeset::write_to", "Changeset::read_from", "SyncNeedV1::write_to", "SyncNeedV1::read_from", "SqliteValue::write_to", "SqliteValue::read_from", "lemma_between_snoc", "lemma_sbetween_snoc"], vacuity=["Changeset::write_to", "Changeset::read_from", "SyncNeedV1::write_to", "SyncNeedV1::read_from", "SqliteValue::write_to", "SqliteValue::read_from"],
         trusted=["token model of the wire: each primitive / derived speedy codec (u8, usize, u64 newtypes, Option<Timestamp>, Vec<Change>) is the inverse of its writer and self-delimiting (dependency code, read not verified)"],
         assumptions=["generic Writer/Reader/Context parameters replaced by the token stream; error construction (format!) reduced to a value"]),
    dict(kind="verus", name="c09_newtypes", template="specs/c09_newtypes.vrs",
         under_contract=["CrsqlDbVersion::write_to", "CrsqlDbVersion::read_from", "CrsqlSeq::write_to", "CrsqlSeq::read_from", "ClusterId::write_to", "ClusterId::read_from", "Timestamp::write_to", "Timestamp::read_from", "ActorId::write_to", "ActorId::read_from", "TableName::write_to", "TableName::read_from", "ColumnName::write_to", "ColumnName::read_from"],
         vacuity=["CrsqlDbVersion::write_to", "CrsqlDbVersion::read_from", "CrsqlSeq::write_to", "CrsqlSeq::read_from", "ClusterId::write_to", "ClusterId::read_from", "Timestamp::write_to", "Timestamp::read_from", "ActorId::write_to", "ActorId::read_from", "TableName::write_to", "TableName::read_from", "ColumnName::write_to", "ColumnName::read_from"],
         trusted=["speedy's u64 / u16 codecs are mutually inverse and self-delimiting (dependency code, read not verified)", "uhlc::NTP64 is a transparent u64 newtype", "uuid::Uuid is its sixteen bytes (from_bytes / as_bytes); CompactString::new copies the str, as_str returns it; speedy's str and [u8; 16] codecs are one self-delimiting token each"],
         assumptions=["generic Writer/Reader/Context parameters replaced by the token stream"]),
    dict(kind="verus", name="c09_syncstate", template="specs/c09_syncstate.vrs",
         under_contract=["SyncStateV1::write_to", "SyncStateV1::read_from", "lemma_cat_snoc", "lemma_built_step", "lemma_built_all"], vacuity=["SyncStateV1::write_to", "SyncStateV1::read_from"],
         trusted=["token model of the wire (as c09_roundtrip); `heads` goes through speedy's own HashMap codec: one token", "HashMap iteration order is a function of the map object and lists each key exactly once (hash_order)"],
         assumptions=["`for (k, v) in &map` rewritten to `map.iter()` (the IntoIterator impl of &HashMap)"]),
    dict(kind="structural", name="c09_vec_prealloc", check="speedy_prealloc", dir="crates/klukai-types/src", replay="c09_syncmsg",
         trusted=["speedy 0.8.7 Reader::read_vec: returns Err when T::minimum_bytes_needed() * len exceeds the bytes remaining, else Vec::with_capacity(len) (dependency code, read not verified)",
                  "speedy derive: minimum_bytes_needed of a struct = sum of its fields, of an enum = tag + smallest variant (>= 1 for any non-empty item)"]),
    dict(kind="depcheck", name="depcheck_c09"),
    dict(kind="kani", name="c09_pack", crate="kani/c09_pack", replay_run="c09_pack", use_repo_lock=True,
         harnesses=[dict(name="width_rule_i64", complete=True, bound="none: full i64 domain, the only loop is the 8-iteration reference loop (unwinding assertions on)"),
                    dict(name="width_rule_i32", complete=True, bound="none: full i32 domain")],
         trusted=["real `bytes` crate from the cargo registry; SqliteValue Text/Blob payload types replaced by String/Vec<u8> in this harness crate"],
         assumptions=["the extension's packing rule is taken from its documentation: minimal big-endian width of the value seen as u64"]),
    dict(kind="verus", name="c09_packfmt", template="specs/c09_packfmt.vrs",
         under_contract=["unpack_columns", "pack_columns", "ColumnType::from_u8", "lemma_pack_unpack_roundtrip", "lemma_dec_col", "lemma_be_roundtrip"], vacuity=["unpack_columns", "pack_columns"], replay="c09_packfmt",
         assumptions=["contract of bytes::Buf for &[u8] written from the bytes 1.10.1 sources (get_int sign-extends; getters panic past the end, on nbytes > 8, and get_int(0) overflows a shift in debug builds)",
                      "f64 payloads are opaque: get_f64/put_f64 are inverse on 8 bytes (assumed)"]),
    dict(kind="verus", name="c09_readers", template="specs/c09_readers.vrs",
         under_contract=["Changeset::read_from", "SyncNeedV1::read_from", "SyncStateV1::read_from", "SqliteValue::read_from"],
         vacuity=["Changeset::read_from", "SyncNeedV1::read_from", "SyncStateV1::read_from", "SqliteValue::read_from"], replay="c09_readers",
         assumptions=["speedy Reader / primitive and derived Readable impls are dependency code: assumed total, consuming at least their minimum size on success",
                      "generic signature `<R: Reader<'a, C>>(reader: &mut R) -> Result<Self, C::Error>` replaced by a concrete stand-in reader/error type",
                      "reservation rule: an up-front reservation must be <= 65536 elements or <= remaining_bytes/8 elements"]),
]

UNITS["C07"] = [
    dict(kind="structural", name="c07_delivery", check="broadcast_delivery", file="crates/klukai-types/src/broadcast.rs", fn="broadcast_changes",
         trusted=["tokio mpsc: send().await waits for capacity, try_send fails when the queue is full"]),
    dict(kind="structural", name="c07_row_bindings", check="row_bindings", file="crates/klukai-types/src/change.rs", fn="row_to_change",
         files=["crates/klukai-agent/src/api/peer/mod.rs", "crates/klukai-types/src/broadcast.rs", "crates/klukai-agent/src/agent/util.rs"],
         trusted=["rusqlite returns columns in SELECT order; syntactic reading of the SELECT lists (vx/structural.py row_bindings)"]),
    dict(kind="structural", name="c07_chunker_ranges", check="chunker_ranges", file="crates/klukai-types/src/broadcast.rs", fn="broadcast_changes", min_sites=1,
         trusted=["syntactic comparison (vx/structural.py chunker_ranges): the local broadcast announces seq 0 ..= last_seq over all rows of the version, selected in ascending seq order"]),
    dict(kind="structural", name="c07_own_actor", check="own_actor_guard", file="crates/klukai-agent/src/agent/handlers.rs", fn="handle_changes",
         trusted=["handle_changes is the only way a received changeset reaches process_multiple_changes (uni / sync receive paths both feed tx_changes)"]),
    dict(kind="structural", name="c07_from_conn", check="from_conn", file="crates/klukai-types/src/agent.rs", fn="from_conn", impl="^impl BookedVersions$",
         trusted=["same obligation as c02_from_conn: after a restart the node's own head is read from crsql_db_versions (cr-sqlite's per-site version counter), so the next local version is previous + 1 and no gap is listed for its own versions"]),
    dict(kind="structural", name="c07_sql_scoping", check="sql_actor_scoping", file="crates/klukai-types/src/change.rs",
         trusted=["heuristic SQL reading (see c03_sql_scoping)"]),
    dict(kind="verus", name="c07_broadcast", template="specs/c07_broadcast.vrs",
         under_contract=["frag_chunker_args", "frag_broadcast_msg"], vacuity=["frag_chunker_args", "frag_broadcast_msg"],
         assumptions=["the rows come from `SELECT … FROM crsql_changes WHERE db_version = ? AND site_id = crsql_site_id() ORDER BY seq ASC` (the ORDER BY and the (seq 0, last_seq) label are decided by unit c07_chunker_ranges; the row contents are SQLite's)",
                      "tokio::spawn / tx_bcast.send deliver the constructed message (not decided)"]),
    dict(kind="verus", name="c07_statements", template="specs/c07_statements.vrs",
         under_contract=["frag_run_statements"], vacuity=["frag_run_statements"],
         assumptions=["the outcome of a statement is SQLite's (uninterpreted predicate will_succeed); `.map_err(..)` and the rows-affected counter are dropped from the closure",
                      "`iter().map(f).collect::<Result<Vec<_>,_>>()` replaced by a contract stand-in that keeps the real closure"]),
    dict(kind="structural", name="c07_sequence", check="local_write_sequence", file="crates/klukai-agent/src/api/public/mod.rs", fn="make_broadcastable_changes",
         trusted=["rusqlite Transaction: nothing is visible/durable before commit(); `?` returns early; dropping the transaction rolls back"]),
    dict(kind="structural", name="c07_insert_local", check="insert_local_changes", file="crates/klukai-types/src/change.rs", fn="insert_local_changes",
         trusted=["crsql_peek_next_db_version() is the previous db_version + 1 (cr-sqlite)", "MAX(seq) IS NULL exactly when the transaction changed nothing"]),
]

NOTES = {
    "C02": "bookkeeping algebra of one actor (PartialVersion completeness, insert_partial union, contains predicates), gap computation, generate_sync per actor, insert_db (persisted gaps == stored gaps), reload order and column bindings of from_conn, SQL scoped per actor",
    "C03": "decision kernels of 'applied iff covered': Changeset::is_complete, PartialVersion::is_complete / insert_partial (shared with C02), same-batch skip, SQL seq-range merge, completeness triggers; what suppliers send (send_change_chunks); clearing of buffered copies; hand-over to the applier",
    "C04": "fragments of SyncStateV1::compute_available_needs (guards, peer-held sets, Full needs sound + complete, partial seq ranges = missing ∩ held, tail request), request de-duplication of parallel_sync, loop headers, chunk_range (bounded)",
    "C05": "safety guards of the sync server (pre-filter, empties decisions, clipping + its SQL overlap clause, first stage of a Full need), the whole send_change_chunks against the chunker's contract, and the structural facts those fragments rest on (one snapshot, scoping, bindings, chunker bounds, error rows)",
    "C07": "sequencing/dominance obligations on the real text of the local write path, the statement-closure and broadcast fragments, the chunker's tiling contract, own-actor guard of the ingest loop, head reload; rollback itself is SQLite's",
    "C08": "per-call tiling contract of the real ChunkedChanges::next + verified driver for the whole run; send_change_chunks; clipping / de-duplication fragments; chunker construction sites; chunk_range: see kani unit (bounded)",
    "C09": "totality of the hand-written decoders (no reachable panic, bounded reservations, UTF-8); round trip of every hand-written writer/reader pair over a token-stream wire (Changeset, SyncNeedV1, SyncStateV1, SqliteValue, newtypes); packed-key format, width rule and round trip",
    "C10": "seen-cache kernel of handle_changes (suppression test, drop-oldest eviction, cache insertion), cleared decision and in-transaction skip of process_multiple_changes, contains/contains_all, offer loops, apply trigger hand-over, reload of held seqs",
    "C12": "client clause (SubscriptionStream accepts an event iff its id is last+1, reports MissedChange otherwise, cursor written only there) and server clause (catch-up retries and hand-over produce consecutive ids; lag / overflow stop the stream; snapshot labelled with the id read with its rows; matcher publishes each event's id before commit)",
    "C14": "update-feed kernels: causal-length cache filter (latest state wins, older-after-newer dropped, a stale key skips only itself), cache trim keeps newest, per-batch notification loop, delete/update parity, impacted-rows filter; both feeds fed; lagged feed stops",
    "C15": "additive rules of apply_schema as fragments (tables, columns, primary key, new columns, indexes) + statement texts, transaction/commit/assignment order of execute_schema, reload, loop reaches the index comparison",
    "C16": "the cluster-id decision sites as fragments (uni dispatch, whole uni receive loop, serve_sync prologue incl. the written rejection, sync-candidate filter, broadcast-target filter), fresh cluster id, member table takes the newer identity's cluster",
    "C17": "whole require_authz middleware (Verus on abstract texts + Kani on real Strings, bounded length), route/middleware ordering, read-only pool construction and use, read-only-guard dominance, subscription text only parsed / prepared",
    "C18": "add_member / remove_member / add_rtt / MemberState::{new,is_ring0} proved for maps of any size, whole-history lemma by induction over those contracts; recalculate_rings / ring0 as inductive Kani steps (bounded state => labelled bounded)",
}

# ---- cross-registration: a unit decides a fact that several properties rest on; it is run (and reported) under each of them, so that a
# change to the shared code is reported under every property it breaks (rounds 3-4: five seeded changes were only caught under "the other" property)
def _also(src_prop, src_name, dst_prop, dst_name, why):
    u = dict([x for x in UNITS[src_prop] if x["name"] == src_name][0])
    u["name"] = dst_name
    u["assumptions"] = list(u.get("assumptions", [])) + ["same unit as %s (registered under %s as well): %s" % (src_name, dst_prop, why)]
    UNITS[dst_prop].append(u)

_also("C02", "c02_partial", "C03", "c03_partial", "a buffered version counts as completely received iff its seqs cover 0..=last_seq")
_also("C02", "c02_booked", "C03", "c03_booked", "what insert_partial records is the union of the chunks received")
_also("C10", "c10_apply_trigger", "C03", "c03_apply_trigger", "a completely received version is handed to the applier (eventually applied)")
_also("C10", "c10_apply_trigger_boot", "C03", "c03_apply_trigger_boot", "fully buffered versions found at start-up are handed to the applier")
_also("C02", "c02_commit_order", "C10", "c10_commit_order", "a changeset counts as held only after its bookkeeping was persisted")
_also("C08", "c08_chunker", "C05", "c05_chunker", "send_change_chunks is proved against the chunker's contract; the contract itself is proved here")
_also("C08", "c08_chunker", "C07", "c07_chunker", "a local transaction is announced through the same chunker: ranges tile 0..=last_seq")
_also("C08", "c08_chunk_range_v", "C04", "c04_chunk_range_v", "a Full need is cut into sub-ranges by chunk_range before it is sent; their union is the need (unbounded twin of the bounded Kani unit)")

for _p in ("C05", "C08", "C03"):
    UNITS[_p].append(dict(kind="structural", name=_p.lower() + "_row_error", check="chunker_error_stops", file="crates/klukai-agent/src/api/peer/mod.rs", fn="send_change_chunks",
                          trusted=["ChunkedChanges::next returns a failed row as Some(Err(_)) without finishing and without dropping what it had collected (read in change.rs, not under contract for error rows)"]))
UNITS["C07"].append(dict(kind="structural", name="c07_row_error", check="chunker_error_stops", file="crates/klukai-types/src/broadcast.rs", fn="broadcast_changes",
                         trusted=["same obligation for the chunker that announces a local transaction (`for changes_seqs in chunked { match changes_seqs { … } }`)"]))

# ---- composition guard: one structural unit per property that has fragment-based Verus units (see vx/structural.py check_exits_covered)
import os as _os, re as _re
for _p, _us in list(UNITS.items()):
    _ts = []
    for _u in _us:
        if _u.get("kind") == "verus":
            _t = _os.path.join(_os.path.dirname(_os.path.abspath(__file__)), _u["template"])
            if _re.search(r"^//@extract fragment", open(_t).read(), _re.M) and _u["template"] not in _ts:
                _ts.append(_u["template"])
    if _ts:
        _us.append(dict(kind="structural", name=_p.lower() + "_exits", check="exits_covered", templates=_ts, file="(functions with fragments under contract)",
                        trusted=["baseline of early exits outside the extracted spans: /verif/exits/%s_exits.json (committed, never written by a check)" % _p.lower()]))
