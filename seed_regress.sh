#!/bin/sh
# Re-runs every stored seed against the current machinery: applies the patch to /repo, runs the property's quick check, restores /repo.
# Usage: ./seed_regress.sh [seed-id ...]   (no other use of /repo while this runs)
cd "$(dirname "$0")"
git -C /repo diff --quiet || { echo "/repo is not clean"; exit 2; }
ids="$@"; [ -z "$ids" ] && ids=$(ls -d seeded/*/ | xargs -n1 basename)
for id in $ids; do
  d=seeded/$id
  p=$(python3 -c "import json;print(json.load(open('$d/meta.json'))['property'])")
  patch=$d/patch.diff; [ -f $d/patch_rebased_on_fixed_tree.diff ] && patch=$d/patch_rebased_on_fixed_tree.diff
  if ! git -C /repo apply /verif/$patch 2>/dev/null; then echo "$id $p PATCH-DOES-NOT-APPLY"; continue; fi
  ./check $p --tier quick > build/seed_$id.log 2>&1; rc=$?
  git -C /repo checkout -- .
  v=$(grep -m1 '^VIOLATION' build/seed_$id.log | sed 's/.*obligation=//' | cut -c1-110)
  echo "$id $p exit=$rc $v"
done
