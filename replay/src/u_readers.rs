//! Feed crafted peer bytes to the REAL hand-written speedy decoders and observe: panic? huge allocation? invalid UTF-8?
use klukai_types::api::SqliteValue;
use klukai_types::broadcast::Changeset;
use klukai_types::sync::{SyncNeedV1, SyncStateV1};
use speedy::Readable;
use std::alloc::{GlobalAlloc, Layout, System};
use std::sync::atomic::{AtomicUsize, Ordering};

pub struct Counting;
pub static MAX_REQ: AtomicUsize = AtomicUsize::new(0);
unsafe impl GlobalAlloc for Counting {
    unsafe fn alloc(&self, l: Layout) -> *mut u8 {
        MAX_REQ.fetch_max(l.size(), Ordering::Relaxed);
        if l.size() > (1usize << 32) { return std::ptr::null_mut(); }
        unsafe { System.alloc(l) }
    }
    unsafe fn dealloc(&self, p: *mut u8, l: Layout) { unsafe { System.dealloc(p, l) } }
    unsafe fn realloc(&self, p: *mut u8, l: Layout, n: usize) -> *mut u8 {
        MAX_REQ.fetch_max(n, Ordering::Relaxed);
        unsafe { System.realloc(p, l, n) }
    }
}

fn probe<T, F: FnOnce() -> Result<T, speedy::Error> + std::panic::UnwindSafe>(f: F) -> (bool, usize, Option<T>) {
    MAX_REQ.store(0, Ordering::Relaxed);
    let r = std::panic::catch_unwind(f);
    let m = MAX_REQ.load(Ordering::Relaxed);
    match r { Ok(Ok(v)) => (false, m, Some(v)), Ok(Err(_)) => (false, m, None), Err(_) => (true, m, None) }
}

fn hex(b: &[u8]) -> String { b.iter().map(|x| format!("{:02x}", x)).collect() }

pub fn search() -> String {
    std::panic::set_hook(Box::new(|_| {}));
    let big: u64 = 1_000_000; // elements announced by a 9-byte frame
    let mut frames: Vec<(&str, Vec<u8>)> = vec![];
    for tag in [3u8, 7, 255] { frames.push(("Changeset", vec![tag, 0])); frames.push(("SyncNeedV1", vec![tag, 0])); }
    let mut f = vec![2u8]; f.extend_from_slice(&big.to_le_bytes()); frames.push(("Changeset", f));
    let mut f = vec![1u8]; f.extend_from_slice(&1u64.to_le_bytes()); f.extend_from_slice(&big.to_le_bytes()); frames.push(("SyncNeedV1", f));
    let mut f = vec![0u8; 16]; f.extend_from_slice(&0u32.to_le_bytes()); f.extend_from_slice(&big.to_le_bytes()); frames.push(("SyncStateV1", f));
    frames.push(("SqliteValue", vec![3, 0xff, 0xff, 0xff, 0x3f]));
    frames.push(("SqliteValue", vec![4, 0xff, 0xff, 0xff, 0x3f]));
    frames.push(("SqliteValue", vec![3, 1, 0, 0, 0, 0xFF]));
    frames.push(("SqliteValue", vec![3, 2, 0, 0, 0, 0xC3, 0x28]));
    for (ty, bytes) in frames {
        let b = bytes.clone();
        let (panicked, maxreq, bad_utf8) = match ty {
            "Changeset" => { let (p, m, _) = probe(move || Changeset::read_from_buffer(&b)); (p, m, false) }
            "SyncNeedV1" => { let (p, m, _) = probe(move || SyncNeedV1::read_from_buffer(&b)); (p, m, false) }
            "SyncStateV1" => { let (p, m, _) = probe(move || SyncStateV1::read_from_buffer(&b)); (p, m, false) }
            _ => { let (p, m, v) = probe(move || SqliteValue::read_from_buffer(&b));
                   let bad = match v { Some(SqliteValue::Text(s)) => std::str::from_utf8(s.as_bytes()).is_err(), _ => false }; (p, m, bad) }
        };
        if panicked {
            return format!("{{\"found\":true,\"input\":\"{}::read_from_buffer(0x{})\",\"observed\":\"panic while decoding peer bytes\",\"expected\":\"Ok or Err\"}}", ty, hex(&bytes));
        }
        if maxreq > 2 * 1024 * 1024 + bytes.len() * 64 {
            return format!("{{\"found\":true,\"input\":\"{}::read_from_buffer(0x{}) ({} bytes)\",\"observed\":\"a single allocation of {} bytes was requested\",\"expected\":\"allocation related to the input size\"}}", ty, hex(&bytes), bytes.len(), maxreq);
        }
        if bad_utf8 {
            return format!("{{\"found\":true,\"input\":\"SqliteValue::read_from_buffer(0x{})\",\"observed\":\"Ok(Text(..)) whose bytes are not valid UTF-8\",\"expected\":\"Err, or valid UTF-8\"}}", hex(&bytes));
        }
    }
    "{\"found\":false,\"searched\":\"unknown-tag frames, 9-byte frames announcing 10^6 elements, non-UTF-8 text payloads\"}".to_string()
}
