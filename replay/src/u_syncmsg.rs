//! Feed crafted peer frames to the REAL `SyncMessage` decoder (the bi-stream sync protocol entry point) in a CHILD PROCESS, because the
//! failure mode searched for is a process abort (failed allocation), which cannot be caught in-process.
use klukai_types::sync::SyncMessage;
use speedy::Readable;
use std::process::Command;

fn hex(b: &[u8]) -> String { b.iter().map(|x| format!("{:02x}", x)).collect() }
fn unhex(s: &str) -> Vec<u8> { (0..s.len() / 2).map(|i| u8::from_str_radix(&s[2 * i..2 * i + 2], 16).unwrap()).collect() }

/// child: decode one frame, print the largest single allocation request
pub fn run(args: &[String]) -> String {
    let bytes = unhex(&args[0]);
    crate::u_readers::MAX_REQ.store(0, std::sync::atomic::Ordering::Relaxed);
    let r = SyncMessage::read_from_buffer(&bytes);
    let m = crate::u_readers::MAX_REQ.load(std::sync::atomic::Ordering::Relaxed);
    format!("{{\"ok\":{},\"max_alloc\":{}}}", r.is_ok(), m)
}

pub fn search() -> String {
    let exe = std::env::current_exe().unwrap();
    let mut frames: Vec<Vec<u8>> = vec![];
    // SyncMessage::V1(SyncMessageV1::Request(vec![(actor, <Vec<SyncNeedV1> announcing N elements, none present>)]))
    for n in [u32::MAX, 1u32 << 28, 1u32 << 24] {
        let mut f = vec![0u8, 0, 0, 0]; // SyncMessage::V1
        f.extend_from_slice(&4u32.to_le_bytes()); // SyncMessageV1::Request
        f.extend_from_slice(&1u32.to_le_bytes()); // one (actor, needs) pair
        f.extend_from_slice(&[0x11u8; 16]);
        f.extend_from_slice(&n.to_le_bytes());
        frames.push(f);
    }
    // outer vector announcing many pairs
    let mut f = vec![0u8, 0, 0, 0]; f.extend_from_slice(&4u32.to_le_bytes()); f.extend_from_slice(&u32::MAX.to_le_bytes()); frames.push(f);
    for bytes in frames {
        let out = Command::new(&exe).args(["run", "c09_syncmsg", &hex(&bytes)]).output();
        let out = match out { Ok(o) => o, Err(e) => return format!("{{\"found\":false,\"error\":\"cannot spawn child: {}\"}}", e) };
        let so = String::from_utf8_lossy(&out.stdout).to_string();
        if !out.status.success() {
            let se = String::from_utf8_lossy(&out.stderr).replace('"', "'").replace('\n', " ");
            return format!("{{\"found\":true,\"input\":\"SyncMessage::read_from_buffer(0x{}) ({} bytes)\",\"observed\":\"decoder process died: {} {}\",\"expected\":\"Ok or Err, allocation related to the input size\"}}",
                hex(&bytes), bytes.len(), out.status, se.trim());
        }
        if let Some(i) = so.find("\"max_alloc\":") {
            let m: usize = so[i + 12..].trim_end_matches(|c: char| !c.is_ascii_digit()).parse().unwrap_or(0);
            if m > 2 * 1024 * 1024 + bytes.len() * 64 {
                return format!("{{\"found\":true,\"input\":\"SyncMessage::read_from_buffer(0x{}) ({} bytes)\",\"observed\":\"a single allocation of {} bytes was requested\",\"expected\":\"allocation related to the input size\"}}", hex(&bytes), bytes.len(), m);
            }
        }
    }
    "{\"found\":false,\"searched\":\"SyncMessage request frames whose inner/outer vector length prefix announces 2^24..2^32-1 absent elements\"}".to_string()
}
