//! Apply two schemas in sequence with the REAL apply_schema on an in-memory cr-sqlite database and compare the schema the node would keep
//! working with (the `new_schema` argument after an Ok) with what the database holds.
use klukai_types::schema::{apply_schema, parse_sql, Schema};
use klukai_types::sqlite::CrConn;

fn db_pk(conn: &rusqlite::Connection, table: &str) -> Vec<String> {
    let mut st = conn.prepare("SELECT name FROM pragma_table_info(?) WHERE pk > 0 ORDER BY pk").unwrap();
    let v: Vec<String> = st.query_map([table], |r| r.get(0)).unwrap().map(|x| x.unwrap()).collect();
    v
}

pub fn search() -> String {
    let cases: Vec<(&str, &str, &str)> = vec![
        ("t",
         "CREATE TABLE t (a INTEGER NOT NULL, b INTEGER NOT NULL, v TEXT, PRIMARY KEY (a, b));",
         "CREATE TABLE t (a INTEGER NOT NULL, b INTEGER NOT NULL, v TEXT, PRIMARY KEY (b, a));"),
    ];
    for (table, s1, s2) in cases {
        let mut conn = match CrConn::init(rusqlite::Connection::open_in_memory().unwrap()) { Ok(c) => c, Err(e) => return format!("{{\"found\":false,\"error\":\"cannot init cr-sqlite: {}\"}}", e) };
        let mut schema1 = parse_sql(s1).unwrap();
        {
            let tx = conn.transaction().unwrap();
            if let Err(e) = apply_schema(&tx, &Schema::default(), &mut schema1) { return format!("{{\"found\":false,\"error\":\"first schema rejected: {}\"}}", e.to_string().replace('"', "'")); }
            tx.commit().unwrap();
        }
        let mut schema2 = parse_sql(s2).unwrap();
        let tx = conn.transaction().unwrap();
        let r = apply_schema(&tx, &schema1, &mut schema2);
        match r {
            Err(_) => continue,
            Ok(()) => {
                tx.commit().unwrap();
                let mem: Vec<String> = schema2.tables.get(table).unwrap().pk.iter().cloned().collect();
                let db = db_pk(&conn, table);
                if mem != db {
                    return format!("{{\"found\":true,\"input\":\"apply_schema(current = `{}`, new = `{}`)\",\"observed\":\"Ok(()); the schema the node now works with has primary key {:?} while the database table still has {:?}\",\"expected\":\"Err (a changed primary key is a forbidden edit), or an unchanged primary key\"}}",
                                   s1, s2, mem, db);
                }
            }
        }
    }
    "{\"found\":false,\"searched\":\"primary-key column order swapped on a two-column key\"}".to_string()
}
