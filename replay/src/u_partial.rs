use klukai_types::agent::PartialVersion;
use klukai_types::base::CrsqlSeq;
use rangemap::RangeInclusiveSet;

fn mk(mask: u32, last: u64) -> PartialVersion {
    let mut seqs = RangeInclusiveSet::new();
    for b in 0..8u64 {
        if mask & (1 << b) != 0 {
            seqs.insert(CrsqlSeq(b)..=CrsqlSeq(b));
        }
    }
    PartialVersion { seqs, last_seq: CrsqlSeq(last), ts: Default::default() }
}

fn expected(mask: u32, last: u64) -> bool {
    (0..=last).all(|s| mask & (1 << s) != 0)
}

fn fmt(mask: u32, last: u64, obs: bool, exp: bool) -> String {
    let seqs: Vec<u64> = (0..8).filter(|b| mask & (1 << b) != 0).collect();
    format!(
        "{{\"found\":{},\"input\":{{\"seqs\":{:?},\"last_seq\":{}}},\"observed\":\"is_complete()=={}\",\"expected\":\"{} (every seq 0..=last_seq received)\"}}",
        obs != exp, seqs, last, obs, exp
    )
}

pub fn search() -> String {
    for last in 0..8u64 {
        for mask in 0..256u32 {
            let p = mk(mask, last);
            let obs = p.is_complete();
            let exp = expected(mask, last);
            if obs != exp {
                return fmt(mask, last, obs, exp);
            }
            let fr = p.full_range();
            if fr.start().0 != 0 || fr.end().0 != last {
                return format!("{{\"found\":true,\"input\":{{\"last_seq\":{}}},\"observed\":\"full_range()=={}..={}\",\"expected\":\"0..={}\"}}", last, fr.start().0, fr.end().0, last);
            }
        }
    }
    "{\"found\":false,\"searched\":\"all seq subsets of 0..8 x last_seq 0..8\"}".to_string()
}

pub fn run(args: &[String]) -> String {
    let mask: u32 = args[0].parse().unwrap();
    let last: u64 = args[1].parse().unwrap();
    let p = mk(mask, last);
    fmt(mask, last, p.is_complete(), expected(mask, last))
}
