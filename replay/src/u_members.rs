//! Search small notification histories on the REAL klukai_types::members::Members and compare with the
//! reference fold of property C18 (newest identity wins; down only by the current identity; ring from
//! the RTT average of the member's *current* address; ring0 = same-cluster members with avg < 6 ms).
use klukai_types::actor::{Actor, ActorId, ClusterId};
use klukai_types::broadcast::Timestamp;
use klukai_types::members::Members;
use std::collections::BTreeMap;
use std::net::SocketAddr;
use std::time::Duration;

#[derive(Clone, Debug)]
enum Ev {
    Up(u8, u8, u64, u16),   // id, addr, ts, cluster
    Down(u8, u8, u64, u16),
    Rtt(u8, u64),           // addr, ms
}

fn id(i: u8) -> ActorId { let mut b = [0u8; 16]; b[0] = i + 1; ActorId::from_bytes(b) }
fn addr(a: u8) -> SocketAddr { format!("10.0.0.{}:7000", a + 1).parse().unwrap() }
fn ts(t: u64) -> Timestamp { Timestamp::from(uhlc_ntp(t)) }
fn uhlc_ntp(secs: u64) -> uhlc::NTP64 { uhlc::NTP64::from(Duration::from_secs(secs)) }
fn actor(i: u8, a: u8, t: u64, c: u16) -> Actor { Actor::new(id(i), addr(a), ts(t), ClusterId(c)) }

#[derive(Clone, Debug, PartialEq)]
struct RefMember { addr: u8, ts: u64, cluster: u16 }

fn check(evs: &[Ev]) -> Option<String> {
    let mut m = Members::default();
    let mut rf: BTreeMap<u8, RefMember> = BTreeMap::new();
    let mut samples: BTreeMap<u8, Vec<u64>> = BTreeMap::new();
    for (step, e) in evs.iter().enumerate() {
        match e {
            Ev::Up(i, a, t, c) => {
                m.add_member(&actor(*i, *a, *t, *c));
                match rf.get(i) {
                    Some(old) if *t <= old.ts => {}
                    _ => { rf.insert(*i, RefMember { addr: *a, ts: *t, cluster: *c }); }
                }
            }
            Ev::Down(i, a, t, c) => {
                m.remove_member(&actor(*i, *a, *t, *c));
                if let Some(old) = rf.get(i) { if old.ts == *t { rf.remove(i); } }
            }
            Ev::Rtt(a, ms) => {
                m.add_rtt(addr(*a), Duration::from_millis(*ms));
                let v = samples.entry(*a).or_default();
                v.insert(0, *ms);
                v.truncate(20);
            }
        }
        // compare
        for i in 0..3u8 {
            let real = m.get(&id(i));
            match (real, rf.get(&i)) {
                (None, None) => {}
                (Some(st), Some(r)) => {
                    if st.addr != addr(r.addr) || st.cluster_id != ClusterId(r.cluster) || st.ts != ts(r.ts) {
                        return Some(format!("after step {step}: member {i} listed as addr={} cluster={:?} but newest identity is addr={} cluster={}", st.addr, st.cluster_id, addr(r.addr), r.cluster));
                    }
                    // ring must reflect the average of the CURRENT address whenever a sample for it was the last rtt event processed
                    if let Ev::Rtt(a, _) = e {
                        if *a == r.addr {
                            let s = &samples[a];
                            let avg = s.iter().sum::<u64>() / s.len() as u64;
                            if st.is_ring0() != (avg < 6) {
                                return Some(format!("after step {step}: member {i} at its current address has RTT average {avg} ms but ring={:?} (ring 0 <=> avg < 6)", st.ring));
                            }
                        }
                    }
                }
                (a, b) => return Some(format!("after step {step}: member {i} present={} but reference fold says present={}", a.is_some(), b.is_some())),
            }
        }
        // ring0 targets must be same-cluster members whose current-address average is < 6
        for c in 0..2u16 {
            for a in m.ring0(ClusterId(c)) {
                let owner = rf.iter().find(|(_, r)| addr(r.addr) == a);
                match owner {
                    Some((_, r)) if r.cluster == c => {
                        let avg = samples.get(&r.addr).filter(|s| !s.is_empty()).map(|s| s.iter().sum::<u64>() / s.len() as u64);
                        if avg.map(|x| x >= 6).unwrap_or(true) {
                            return Some(format!("after step {step}: ring0({c}) lists {a} whose current-address RTT average is {avg:?}"));
                        }
                    }
                    _ => return Some(format!("after step {step}: ring0({c}) lists {a} which is not the address of a cluster-{c} member")),
                }
            }
        }
    }
    None
}

pub fn search() -> String {
    // alphabet: 2 ids x 2 addrs x 3 timestamps, one cluster pair; rtt 1 / 250 / 1000 ms on 2 addrs
    let mut alpha: Vec<Ev> = vec![];
    for i in 0..2u8 { for a in 0..2u8 { for t in [10u64, 20] { alpha.push(Ev::Up(i, a, t, (i % 2) as u16)); alpha.push(Ev::Down(i, a, t, (i % 2) as u16)); } } }
    for a in 0..2u8 { for ms in [1u64, 250, 1003] { alpha.push(Ev::Rtt(a, ms)); } }
    // SWIM premise filter: skip histories where two different live ids share an address
    for len in 1..=4usize {
        let n = alpha.len();
        let total = n.pow(len as u32);
        for code in 0..total {
            let mut c = code;
            let mut evs = Vec::with_capacity(len);
            for _ in 0..len { evs.push(alpha[c % n].clone()); c /= n; }
            if violates_premise(&evs) { continue; }
            if let Some(msg) = check(&evs) {
                return format!("{{\"found\":true,\"input\":\"{:?}\",\"observed\":\"{}\",\"expected\":\"newest-identity fold of C18\"}}", evs, msg.replace('"', "'"));
            }
        }
    }
    // longer RTT runs (ring must leave 0 when the average grows)
    for ms in [250u64, 1003] {
        let mut evs = vec![Ev::Up(0, 0, 10, 0), Ev::Rtt(0, 1)];
        for _ in 0..20 { evs.push(Ev::Rtt(0, ms)); }
        if let Some(msg) = check(&evs) {
            return format!("{{\"found\":true,\"input\":\"{:?}\",\"observed\":\"{}\",\"expected\":\"newest-identity fold of C18\"}}", evs, msg.replace('"', "'"));
        }
    }
    "{\"found\":false,\"searched\":\"all histories of length <=4 over 28 events + two 22-step RTT runs\"}".to_string()
}

fn violates_premise(evs: &[Ev]) -> bool {
    // two ids never announce the same address; a down carries the identity (addr, ts) of a previous up
    let mut owner: BTreeMap<u8, u8> = BTreeMap::new();
    let mut ups: Vec<(u8, u8, u64)> = vec![];
    for e in evs {
        match e {
            Ev::Up(i, a, t, _) => {
                if let Some(o) = owner.get(a) { if o != i { return true; } }
                owner.insert(*a, *i);
                // an identity (id, ts) has one address
                if ups.iter().any(|(j, b, u)| j == i && u == t && b != a) { return true; }
                ups.push((*i, *a, *t));
            }
            Ev::Down(i, a, t, _) => { if !ups.iter().any(|(j, b, u)| j == i && b == a && u == t) { return true; } }
            _ => {}
        }
    }
    false
}
