//! vreplay: runs the REAL crate code (path dependency on /repo/crates/*) on concrete inputs and
//! compares with an executable form of the contract.  `search <unit>` enumerates a small universe to
//! find a failing input for an obligation Verus reported without a counterexample; `run <unit> <args>`
//! replays one input.  Output: one JSON line {"found":bool,"input":..,"observed":..,"expected":..}.
use std::env;

mod u_partial;
mod u_members;
mod u_readers;
mod u_packfmt;
mod u_syncmsg;
mod u_schema;

#[global_allocator]
static GLOBAL: u_readers::Counting = u_readers::Counting;

fn main() {
    let args: Vec<String> = env::args().collect();
    if args.len() < 3 {
        eprintln!("usage: vreplay search|run <unit> [args]");
        std::process::exit(2);
    }
    let mode = args[1].as_str();
    let unit = args[2].as_str();
    let rest = &args[3..];
    let out = match (mode, unit) {
        ("search", "c02_partial") => u_partial::search(),
        ("run", "c02_partial") => u_partial::run(rest),
        ("search", "c18_members") => u_members::search(),
        ("search", "c09_readers") => u_readers::search(),
        ("search", "c09_packfmt") => u_packfmt::search(),
        ("run", "c09_pack") => u_packfmt::run(rest),
        ("search", "c09_syncmsg") => u_syncmsg::search(),
        ("search", "c15_schema") => u_schema::search(),
        ("run", "c09_syncmsg") => u_syncmsg::run(rest),
        _ => {
            eprintln!("unknown unit {unit}");
            std::process::exit(2);
        }
    };
    println!("{out}");
}
