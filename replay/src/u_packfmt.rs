//! pack_columns / unpack_columns of the REAL crate: round trip over boundary values, totality over all byte strings of length <= 3
use klukai_types::api::SqliteValue;
use klukai_types::pubsub::{pack_columns, unpack_columns};

fn hex(b: &[u8]) -> String { b.iter().map(|x| format!("{:02x}", x)).collect() }

pub fn search() -> String {
    std::panic::set_hook(Box::new(|_| {}));
    // 1. integer round trip on boundary values
    let mut ints: Vec<i64> = vec![0, 1, 127, 128, 255, 256, 32767, 32768, 65535, 65536, -1, -128, i64::MAX, i64::MIN];
    for k in 1..8u32 { ints.push((1i64 << (8 * k)) - 1); ints.push(1i64 << (8 * k - 1)); ints.push(1i64 << (8 * k)); }
    for v in ints {
        let packed = match pack_columns(&[SqliteValue::Integer(v)]) { Ok(p) => p, Err(_) => continue };
        let p2 = packed.clone();
        let r = std::panic::catch_unwind(move || unpack_columns(&p2).map(|c| c.iter().map(|x| x.to_owned()).collect::<Vec<SqliteValue>>()));
        match r {
            Err(_) => return format!("{{\"found\":true,\"input\":\"unpack_columns(pack_columns([Integer({})]) = 0x{})\",\"observed\":\"panic\",\"expected\":\"Ok([Integer({})])\"}}", v, hex(&packed), v),
            Ok(Ok(cols)) if cols == vec![SqliteValue::Integer(v)] => {}
            Ok(other) => return format!("{{\"found\":true,\"input\":\"unpack_columns(pack_columns([Integer({})]) = 0x{})\",\"observed\":\"{:?}\",\"expected\":\"Ok([Integer({})])\"}}", v, hex(&packed), other, v),
        }
    }
    // 2. text / blob round trip for payload lengths around the width boundaries
    for len in [0usize, 1, 127, 128, 255, 256, 300] {
        let t = "a".repeat(len);
        let vals = vec![SqliteValue::Text(t.as_str().into()), SqliteValue::Blob(vec![7u8; len].into()), SqliteValue::Null];
        let packed = pack_columns(&vals).unwrap();
        let p2 = packed.clone();
        let r = std::panic::catch_unwind(move || unpack_columns(&p2).map(|c| c.iter().map(|x| x.to_owned()).collect::<Vec<SqliteValue>>()));
        match r {
            Ok(Ok(cols)) if cols == vals => {}
            Ok(other) => return format!("{{\"found\":true,\"input\":\"round trip of [Text(len {len}), Blob(len {len}), Null]\",\"observed\":\"{}\",\"expected\":\"the same three columns\"}}", format!("{:?}", other).chars().take(120).collect::<String>().replace('"', "'")),
            Err(_) => return format!("{{\"found\":true,\"input\":\"round trip of [Text(len {len}), Blob(len {len}), Null]\",\"observed\":\"panic\",\"expected\":\"the same three columns\"}}"),
        }
    }
    // 2b. non-ASCII text: the length field counts bytes
    for t in ["é", "zürich", "日本語"] {
        let vals = vec![SqliteValue::Text(t.into()), SqliteValue::Integer(7)];
        let packed = pack_columns(&vals).unwrap();
        let p2 = packed.clone();
        let r = std::panic::catch_unwind(move || unpack_columns(&p2).map(|c| c.iter().map(|x| x.to_owned()).collect::<Vec<SqliteValue>>()));
        match r {
            Ok(Ok(cols)) if cols == vals => {}
            _ => return format!("{{\"found\":true,\"input\":\"round trip of [Text({t}), Integer(7)] packed as 0x{}\",\"observed\":\"not the same two columns\",\"expected\":\"the same two columns\"}}", hex(&packed)),
        }
    }
    // 3. totality on arbitrary peer bytes: all strings of length <= 2, and [1, t, x] for all t, x
    let mut inputs: Vec<Vec<u8>> = vec![vec![]];
    for a in 0..=255u8 { inputs.push(vec![a]); for b in 0..=255u8 { inputs.push(vec![a, b]); } }
    for t in 0..=255u8 { for x in [0u8, 1, 0x80, 0xff] { inputs.push(vec![1, t, x]); inputs.push(vec![1, t, x, x, x, x, x, x, x, x, x]); } }
    for inp in inputs {
        let i2 = inp.clone();
        if std::panic::catch_unwind(move || { let _ = unpack_columns(&i2); }).is_err() {
            return format!("{{\"found\":true,\"input\":\"unpack_columns(0x{})\",\"observed\":\"panic\",\"expected\":\"Ok or Err\"}}", hex(&inp));
        }
    }
    "{\"found\":false,\"searched\":\"integer boundary values, text/blob lengths at width boundaries, all byte strings of length <= 2 and 2k three/eleven-byte frames\"}".to_string()
}


/// replay of a Kani counterexample of the width rule on the REAL pack_columns: the length nibble written for Integer(v)
pub fn run(args: &[String]) -> String {
    let v: i64 = match args.get(0).and_then(|a| a.parse::<i64>().ok()) { Some(v) => v, None => return "{\"found\":null,\"error\":\"expected one i64\"}".to_string() };
    let packed = match klukai_types::pubsub::pack_columns(&[klukai_types::api::SqliteValue::Integer(v)]) { Ok(p) => p, Err(e) => return format!("{{\"found\":true,\"input\":\"pack_columns([Integer({})])\",\"observed\":\"Err({})\",\"expected\":\"Ok\"}}", v, e) };
    let width = if packed.len() >= 2 { (packed[1] >> 3) as u32 } else { 255 };
    let u = v as u64;
    let expected: u32 = if u == 0 { 0 } else { (64 - u.leading_zeros() + 7) / 8 };
    let hexs: String = packed.iter().map(|b| format!("{:02x}", b)).collect();
    format!("{{\"found\":{},\"input\":\"pack_columns([Integer({})])\",\"observed\":\"0x{} (integer written with {} bytes)\",\"expected\":\"{} bytes: the extension's minimal big-endian width of the value seen as u64\"}}",
            width != expected, v, hexs, width, expected)
}
