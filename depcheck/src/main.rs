//! depcheck: bounded differential validation of the ASSUMED dependency contracts (specs/lib/*.vrs) against the real crates.
//! Not a proof: it enumerates a small universe completely and reports its size; results go under `assumptions` in the evidence.
use bytes::Buf;
use rangemap::RangeInclusiveSet;

const U: u8 = 8; // universe 0..8

fn build(mask: u16) -> RangeInclusiveSet<u8> {
    let mut s = RangeInclusiveSet::new();
    for b in 0..U { if mask & (1 << b) != 0 { s.insert(b..=b); } }
    s
}
fn view(s: &RangeInclusiveSet<u8>) -> u16 { let mut m = 0; for b in 0..U { if s.contains(&b) { m |= 1 << b; } } m }
fn maximal(mask: u16) -> Vec<(u8, u8)> {
    let mut out = vec![]; let mut b = 0;
    while b < U { if mask & (1 << b) != 0 { let lo = b; while b + 1 < U && mask & (1 << (b + 1)) != 0 { b += 1; } out.push((lo, b)); } b += 1; }
    out
}
fn rmask(lo: u8, hi: u8) -> u16 { let mut m = 0; let mut b = lo; while b <= hi && b < U { m |= 1 << b; b += 1; } m }

fn main() {
    std::panic::set_hook(Box::new(|_| {}));
    let mut checks: u64 = 0;
    let mut fail = |what: String| { println!("DEPCHECK-FAIL {what}"); std::process::exit(1); };
    for mask in 0..(1u16 << U) {
        let s = build(mask);
        // type invariant: stored ranges are the maximal intervals, sorted, non-adjacent (ranges_wf) ; iter() yields them in order
        let stored: Vec<(u8, u8)> = s.iter().map(|r| (*r.start(), *r.end())).collect();
        if stored != maximal(mask) { fail(format!("iter/ranges_wf mask={mask:#b} got {stored:?}")); }
        if view(&s) != mask { fail(format!("view mask={mask:#b}")); }
        checks += 2;
        for x in 0..U {
            let exp = maximal(mask).into_iter().find(|(a, b)| *a <= x && x <= *b);
            let got = s.get(&x).map(|r| (*r.start(), *r.end()));
            if got != exp { fail(format!("get({x}) mask={mask:#b} got {got:?} exp {exp:?}")); }
            if s.contains(&x) != (mask & (1 << x) != 0) { fail(format!("contains({x})")); }
            checks += 2;
        }
        for lo in 0..U { for hi in 0..U {
            // gaps: maximal sub-intervals of [lo,hi] outside the view, in order; nothing for lo > hi
            let q = lo..=hi;
            let got: Vec<(u8, u8)> = s.gaps(&q).map(|r| (*r.start(), *r.end())).collect();
            let exp: Vec<(u8, u8)> = if lo <= hi { maximal(!mask & rmask(lo, hi)) } else { vec![] };
            if got != exp { fail(format!("gaps({lo}..={hi}) mask={mask:#b} got {got:?} exp {exp:?}")); }
            // overlapping: stored ranges that intersect [lo,hi], in order
            let got: Vec<(u8, u8)> = s.overlapping(&q).map(|r| (*r.start(), *r.end())).collect();
            let exp: Vec<(u8, u8)> = maximal(mask).into_iter().filter(|(a, b)| *a <= hi && lo <= *b).collect();
            if lo <= hi && got != exp { fail(format!("overlapping({lo}..={hi}) mask={mask:#b} got {got:?} exp {exp:?}")); }
            checks += 2;
            if lo <= hi {
                let mut t = s.clone(); t.insert(lo..=hi);
                if view(&t) != (mask | rmask(lo, hi)) { fail(format!("insert({lo}..={hi}) mask={mask:#b}")); }
                let mut t = s.clone(); t.remove(lo..=hi);
                if view(&t) != (mask & !rmask(lo, hi)) { fail(format!("remove({lo}..={hi}) mask={mask:#b}")); }
                checks += 2;
            } else {
                // the contract says insert/remove panic for start > end (hence the `requires`)
                let s2 = s.clone();
                let p = std::panic::catch_unwind(move || { let mut t = s2; t.insert(lo..=hi); });
                if p.is_ok() { fail(format!("insert of inverted range {lo}..={hi} did not panic")); }
                checks += 1;
            }
        } }
        // extend(other) == union ; into_iter == iter by value ; is_empty ; Default/new empty
        let other = build((mask.rotate_left(3)) & 0xff);
        let mut t = s.clone(); t.extend(other.clone());
        if view(&t) != (mask | view(&other)) { fail(format!("extend mask={mask:#b}")); }
        let owned: Vec<(u8, u8)> = s.clone().into_iter().map(|r| (*r.start(), *r.end())).collect();
        if owned != maximal(mask) { fail("into_iter".into()); }
        if s.is_empty() != (mask == 0) { fail("is_empty".into()); }
        checks += 3;
    }
    if !RangeInclusiveSet::<u8>::new().is_empty() || !RangeInclusiveSet::<u8>::default().is_empty() { fail("new/default not empty".into()); }
    // std RangeInclusive iteration (Step): lo, lo+1, …, hi ; empty when lo > hi
    for lo in 0..12u64 { for hi in 0..12u64 {
        let got: Vec<u64> = (lo..=hi).collect();
        let exp: Vec<u64> = if lo <= hi { (0..=(hi - lo)).map(|i| lo + i).collect() } else { vec![] };
        if got != exp { fail(format!("range iteration {lo}..={hi}")); }
        checks += 1;
    } }
    // std `RangeInclusive::step_by(n).map(f)` (stand-in step_by_map, unit c08_chunk_range_v): yields f(lo), f(lo+n), … while the argument is <= hi,
    // f is called on exactly those values, in that order; nothing for an inverted range
    for lo in 0..14u64 { for hi in 0..14u64 { for n in 1..7usize {
        let mut called: Vec<u64> = vec![];
        let got: Vec<u64> = (lo..=hi).step_by(n).map(|x| { called.push(x); x * 1000 + 7 }).collect();
        let cnt = if lo <= hi { (hi - lo) / n as u64 + 1 } else { 0 };
        let exp_args: Vec<u64> = (0..cnt).map(|k| lo + k * n as u64).collect();
        let exp: Vec<u64> = exp_args.iter().map(|x| x * 1000 + 7).collect();
        if got != exp || called != exp_args { fail(format!("step_by/map {lo}..={hi} step {n}")); }
        checks += 1;
    } } }
    // Ord::min / Ord::max / cmp::max on a derived-Ord one-field tuple struct = the field's order
    #[derive(Copy, Clone, PartialEq, Eq, PartialOrd, Ord, Debug)] struct Nt(u64);
    for a in [0u64, 1, 2, 9, u64::MAX - 1, u64::MAX] { for b in [0u64, 1, 2, 9, u64::MAX - 1, u64::MAX] {
        if Nt(a).min(Nt(b)) != Nt(a.min(b)) || Nt(a).max(Nt(b)) != Nt(a.max(b)) || std::cmp::max(Nt(a), Nt(b)) != Nt(a.max(b)) || (Nt(a) < Nt(b)) != (a < b) || (Nt(a) <= Nt(b)) != (a <= b) { fail(format!("derived Ord {a} {b}")); }
        if std::cmp::max(Some(Nt(a)), None) != Some(Nt(a)) || (Some(Nt(a)) > None::<Nt>) != true || (Some(Nt(a)) > Some(Nt(b))) != (a > b) { fail(format!("Option<derived Ord> {a} {b}")); }
        checks += 2;
    } }
    // indexmap::IndexMap (stand-ins of c10_ingest `seen`, c14_updates cl cache): insertion order, Entry API, split_off, truncate, swap_remove_entry
    {
        use indexmap::{IndexMap, map::Entry};
        let build_im = |ks: &[u8]| { let mut m: IndexMap<u8, i64> = IndexMap::new(); let mut order: Vec<u8> = vec![]; let mut vals = std::collections::BTreeMap::new();
            for (i, k) in ks.iter().enumerate() { m.insert(*k, i as i64); if !order.contains(k) { order.push(*k); } vals.insert(*k, i as i64); } (m, order, vals) };
        let mut seqs: Vec<Vec<u8>> = vec![vec![]];
        for len in 1..=4 { let mut idx = vec![0u8; len]; loop { seqs.push(idx.clone()); let mut j = 0; while j < len { idx[j] += 1; if idx[j] < 4 { break; } idx[j] = 0; j += 1; } if j == len { break; } } }
        let entries = |m: &IndexMap<u8, i64>| -> Vec<(u8, i64)> { m.iter().map(|(k, v)| (*k, *v)).collect() };
        for ks in &seqs {
            let (m, order, vals) = build_im(ks);
            let model: Vec<(u8, i64)> = order.iter().map(|k| (*k, vals[k])).collect();
            // IndexMap::insert: new key appended, existing key keeps its position and takes the new value ; len
            if entries(&m) != model || m.len() != order.len() { fail(format!("indexmap insert order {ks:?}")); }
            for k in 0..5u8 {
                if m.contains_key(&k) != order.contains(&k) || m.get(&k).copied() != vals.get(&k).copied() { fail(format!("indexmap get/contains_key {ks:?} {k}")); }
                // entry(): Occupied iff present
                let mut a = m.clone();
                let occupied = matches!(a.entry(k), Entry::Occupied(_));
                if occupied != order.contains(&k) { fail(format!("indexmap entry kind {ks:?} {k}")); }
                // Entry::or_insert(v): existing value untouched / v appended at the end
                let mut a = m.clone(); let r = *a.entry(k).or_insert(99);
                let mut exp = model.clone(); if !order.contains(&k) { exp.push((k, 99)); }
                if entries(&a) != exp || r != (if order.contains(&k) { vals[&k] } else { 99 }) { fail(format!("indexmap or_insert {ks:?} {k}")); }
                // Entry::or_default
                let mut a = m.clone(); let r = *a.entry(k).or_default();
                let mut exp = model.clone(); if !order.contains(&k) { exp.push((k, 0)); }
                if entries(&a) != exp || r != (if order.contains(&k) { vals[&k] } else { 0 }) { fail(format!("indexmap or_default {ks:?} {k}")); }
                // VacantEntry::insert appends ; OccupiedEntry::insert replaces in place and returns the old value ; OccupiedEntry::get/get_mut
                let mut a = m.clone();
                match a.entry(k) {
                    Entry::Vacant(v) => { let r = *v.insert(77); let mut exp = model.clone(); exp.push((k, 77)); if r != 77 || entries(&a) != exp { fail(format!("indexmap vacant insert {ks:?} {k}")); } }
                    Entry::Occupied(mut o) => { if *o.get() != vals[&k] || *o.get_mut() != vals[&k] { fail("indexmap occupied get".into()); } let old = o.insert(55);
                        let exp: Vec<(u8, i64)> = model.iter().map(|(kk, vv)| if *kk == k { (*kk, 55) } else { (*kk, *vv) }).collect();
                        if old != vals[&k] || entries(&a) != exp { fail(format!("indexmap occupied insert {ks:?} {k}")); } }
                }
                // OccupiedEntry::swap_remove_entry: as a MAP the result is map minus the key (order is not promised by the stand-in)
                let mut a = m.clone();
                if let Entry::Occupied(o) = a.entry(k) { let (rk, rv) = o.swap_remove_entry();
                    let mut got: Vec<(u8, i64)> = entries(&a); got.sort(); let mut exp: Vec<(u8, i64)> = model.iter().copied().filter(|(kk, _)| *kk != k).collect(); exp.sort();
                    if rk != k || rv != vals[&k] || got != exp { fail(format!("indexmap swap_remove_entry {ks:?} {k}")); } }
                checks += 7;
            }
            for at in 0..=order.len() {
                let mut a = m.clone(); let b = a.split_off(at);
                if entries(&a) != model[..at] || entries(&b) != model[at..] { fail(format!("indexmap split_off {ks:?} {at}")); }
                checks += 1;
            }
            for n in 0..=order.len() + 1 {
                let mut a = m.clone(); a.truncate(n);
                if entries(&a) != model[..n.min(order.len())] { fail(format!("indexmap truncate {ks:?} {n}")); }
                checks += 1;
            }
        }
    }
    // std VecDeque (ingest queue stand-in): push_back appends, pop_front removes the oldest, len
    {
        let mut q: std::collections::VecDeque<u32> = Default::default(); let mut model: Vec<u32> = vec![];
        for step in 0..40u32 { if step % 3 == 2 { let r = q.pop_front(); let e = if model.is_empty() { None } else { Some(model.remove(0)) }; if r != e { fail("vecdeque pop_front".into()); } } else { q.push_back(step); model.push(step); }
            if q.len() != model.len() || q.iter().copied().collect::<Vec<_>>() != model { fail("vecdeque order".into()); } checks += 1; }
        if q.pop_front().is_none() { fail("vecdeque".into()); } q.clear(); if q.pop_front().is_some() { fail("vecdeque empty pop".into()); }
    }
    // bytes::Buf on &[u8]: get_uint zero-extends, get_int sign-extends, both consume n bytes; put_int writes the low n bytes big-endian
    let pats: [u8; 6] = [0x00, 0x01, 0x7f, 0x80, 0xfe, 0xff];
    for n in 1..=8usize {
        for a in pats { for b in pats {
            let mut bytes = vec![b; n]; bytes[0] = a; bytes.push(0xAA);
            let mut be: u128 = 0; for k in 0..n { be = be * 256 + bytes[k] as u128; }
            let mut buf: &[u8] = &bytes;
            let u = buf.get_uint(n);
            if u as u128 != be || buf.len() != 1 { fail(format!("get_uint({n}) {bytes:?}")); }
            let mut buf: &[u8] = &bytes;
            let i = buf.get_int(n);
            let exp: i128 = if n < 8 && a >= 0x80 { be as i128 - (1i128 << (8 * n)) } else { (be as u64) as i64 as i128 };
            if i as i128 != exp || buf.len() != 1 { fail(format!("get_int({n}) {bytes:?} got {i} exp {exp}")); }
            let mut out: Vec<u8> = vec![];
            bytes::BufMut::put_int(&mut out, u as i64, n);
            if out[..] != bytes[..n] { fail(format!("put_int({n})")); }
            checks += 3;
        } }
    }
    let mut buf: &[u8] = &[1, 2, 3];
    if buf.get_uint(0) != 0 || buf.len() != 3 { fail("get_uint(0)".into()); }
    for (f, name) in [(Box::new(|| { let mut b: &[u8] = &[]; b.get_u8(); }) as Box<dyn Fn() + std::panic::UnwindSafe>, "get_u8 on empty"),
                      (Box::new(|| { let mut b: &[u8] = &[0; 16]; b.get_uint(9); }), "get_uint(9)"),
                      (Box::new(|| { let mut b: &[u8] = &[0; 16]; b.get_int(9); }), "get_int(9)"),
                      (Box::new(|| { let mut b: &[u8] = &[0; 2]; b.advance(3); }), "advance past end")] {
        std::panic::set_hook(Box::new(|_| {}));
        if std::panic::catch_unwind(f).is_ok() { println!("DEPCHECK-FAIL {name} did not panic"); std::process::exit(1); }
        checks += 1;
    }
    println!("DEPCHECK-OK checks={checks} universe=\"all 256 range sets over 0..8 x all 64 (lo,hi) pairs; range iteration 12x12; step_by/map 14x14 ranges x steps 1..=6; derived Ord on a newtype (6x6 values incl. Option); IndexMap<u8,i64>: every insertion sequence of length <= 4 over 4 keys x entry/or_insert/or_default/insert/swap_remove_entry/split_off/truncate; VecDeque 40-step trace; bytes get/put widths 1..=8 x 36 byte patterns; 4 panic contracts\"");
}
