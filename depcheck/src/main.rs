//! depcheck: bounded differential validation of the ASSUMED dependency contracts (specs/lib/*.vrs) against the real crates.
//! Not a proof: it enumerates a small universe completely and reports its size; results go under `assumptions` in the evidence.
use bytes::Buf;
use rangemap::RangeInclusiveSet;

const U: u8 = 8; // universe 0..8

fn build(mask: u16) -> RangeInclusiveSet<u8> {
    let mut s = RangeInclusiveSet::new();
    for b in 0..U { if mask & (1 << b) != 0 { s.insert(b..=b); } }
    s
}
fn view(s: &RangeInclusiveSet<u8>) -> u16 { let mut m = 0; for b in 0..U { if s.contains(&b) { m |= 1 << b; } } m }
fn maximal(mask: u16) -> Vec<(u8, u8)> {
    let mut out = vec![]; let mut b = 0;
    while b < U { if mask & (1 << b) != 0 { let lo = b; while b + 1 < U && mask & (1 << (b + 1)) != 0 { b += 1; } out.push((lo, b)); } b += 1; }
    out
}
fn rmask(lo: u8, hi: u8) -> u16 { let mut m = 0; let mut b = lo; while b <= hi && b < U { m |= 1 << b; b += 1; } m }

fn main() {
    std::panic::set_hook(Box::new(|_| {}));
    let mut checks: u64 = 0;
    let mut fail = |what: String| { println!("DEPCHECK-FAIL {what}"); std::process::exit(1); };
    for mask in 0..(1u16 << U) {
        let s = build(mask);
        // type invariant: stored ranges are the maximal intervals, sorted, non-adjacent (ranges_wf) ; iter() yields them in order
        let stored: Vec<(u8, u8)> = s.iter().map(|r| (*r.start(), *r.end())).collect();
        if stored != maximal(mask) { fail(format!("iter/ranges_wf mask={mask:#b} got {stored:?}")); }
        if view(&s) != mask { fail(format!("view mask={mask:#b}")); }
        checks += 2;
        for x in 0..U {
            let exp = maximal(mask).into_iter().find(|(a, b)| *a <= x && x <= *b);
            let got = s.get(&x).map(|r| (*r.start(), *r.end()));
            if got != exp { fail(format!("get({x}) mask={mask:#b} got {got:?} exp {exp:?}")); }
            if s.contains(&x) != (mask & (1 << x) != 0) { fail(format!("contains({x})")); }
            checks += 2;
        }
        for lo in 0..U { for hi in 0..U {
            // gaps: maximal sub-intervals of [lo,hi] outside the view, in order; nothing for lo > hi
            let q = lo..=hi;
            let got: Vec<(u8, u8)> = s.gaps(&q).map(|r| (*r.start(), *r.end())).collect();
            let exp: Vec<(u8, u8)> = if lo <= hi { maximal(!mask & rmask(lo, hi)) } else { vec![] };
            if got != exp { fail(format!("gaps({lo}..={hi}) mask={mask:#b} got {got:?} exp {exp:?}")); }
            // overlapping: stored ranges that intersect [lo,hi], in order
            let got: Vec<(u8, u8)> = s.overlapping(&q).map(|r| (*r.start(), *r.end())).collect();
            let exp: Vec<(u8, u8)> = maximal(mask).into_iter().filter(|(a, b)| *a <= hi && lo <= *b).collect();
            if lo <= hi && got != exp { fail(format!("overlapping({lo}..={hi}) mask={mask:#b} got {got:?} exp {exp:?}")); }
            checks += 2;
            if lo <= hi {
                let mut t = s.clone(); t.insert(lo..=hi);
                if view(&t) != (mask | rmask(lo, hi)) { fail(format!("insert({lo}..={hi}) mask={mask:#b}")); }
                let mut t = s.clone(); t.remove(lo..=hi);
                if view(&t) != (mask & !rmask(lo, hi)) { fail(format!("remove({lo}..={hi}) mask={mask:#b}")); }
                checks += 2;
            } else {
                // the contract says insert/remove panic for start > end (hence the `requires`)
                let s2 = s.clone();
                let p = std::panic::catch_unwind(move || { let mut t = s2; t.insert(lo..=hi); });
                if p.is_ok() { fail(format!("insert of inverted range {lo}..={hi} did not panic")); }
                checks += 1;
            }
        } }
        // extend(other) == union ; into_iter == iter by value ; is_empty ; Default/new empty
        let other = build((mask.rotate_left(3)) & 0xff);
        let mut t = s.clone(); t.extend(other.clone());
        if view(&t) != (mask | view(&other)) { fail(format!("extend mask={mask:#b}")); }
        let owned: Vec<(u8, u8)> = s.clone().into_iter().map(|r| (*r.start(), *r.end())).collect();
        if owned != maximal(mask) { fail("into_iter".into()); }
        if s.is_empty() != (mask == 0) { fail("is_empty".into()); }
        checks += 3;
    }
    if !RangeInclusiveSet::<u8>::new().is_empty() || !RangeInclusiveSet::<u8>::default().is_empty() { fail("new/default not empty".into()); }
    // std RangeInclusive iteration (Step): lo, lo+1, …, hi ; empty when lo > hi
    for lo in 0..12u64 { for hi in 0..12u64 {
        let got: Vec<u64> = (lo..=hi).collect();
        let exp: Vec<u64> = if lo <= hi { (0..=(hi - lo)).map(|i| lo + i).collect() } else { vec![] };
        if got != exp { fail(format!("range iteration {lo}..={hi}")); }
        checks += 1;
    } }
    // bytes::Buf on &[u8]: get_uint zero-extends, get_int sign-extends, both consume n bytes; put_int writes the low n bytes big-endian
    let pats: [u8; 6] = [0x00, 0x01, 0x7f, 0x80, 0xfe, 0xff];
    for n in 1..=8usize {
        for a in pats { for b in pats {
            let mut bytes = vec![b; n]; bytes[0] = a; bytes.push(0xAA);
            let mut be: u128 = 0; for k in 0..n { be = be * 256 + bytes[k] as u128; }
            let mut buf: &[u8] = &bytes;
            let u = buf.get_uint(n);
            if u as u128 != be || buf.len() != 1 { fail(format!("get_uint({n}) {bytes:?}")); }
            let mut buf: &[u8] = &bytes;
            let i = buf.get_int(n);
            let exp: i128 = if n < 8 && a >= 0x80 { be as i128 - (1i128 << (8 * n)) } else { (be as u64) as i64 as i128 };
            if i as i128 != exp || buf.len() != 1 { fail(format!("get_int({n}) {bytes:?} got {i} exp {exp}")); }
            let mut out: Vec<u8> = vec![];
            bytes::BufMut::put_int(&mut out, u as i64, n);
            if out[..] != bytes[..n] { fail(format!("put_int({n})")); }
            checks += 3;
        } }
    }
    let mut buf: &[u8] = &[1, 2, 3];
    if buf.get_uint(0) != 0 || buf.len() != 3 { fail("get_uint(0)".into()); }
    for (f, name) in [(Box::new(|| { let mut b: &[u8] = &[]; b.get_u8(); }) as Box<dyn Fn() + std::panic::UnwindSafe>, "get_u8 on empty"),
                      (Box::new(|| { let mut b: &[u8] = &[0; 16]; b.get_uint(9); }), "get_uint(9)"),
                      (Box::new(|| { let mut b: &[u8] = &[0; 16]; b.get_int(9); }), "get_int(9)"),
                      (Box::new(|| { let mut b: &[u8] = &[0; 2]; b.advance(3); }), "advance past end")] {
        std::panic::set_hook(Box::new(|_| {}));
        if std::panic::catch_unwind(f).is_ok() { println!("DEPCHECK-FAIL {name} did not panic"); std::process::exit(1); }
        checks += 1;
    }
    println!("DEPCHECK-OK checks={checks} universe=\"all 256 range sets over 0..8 x all 64 (lo,hi) pairs; range iteration 12x12; bytes get/put widths 1..=8 x 36 byte patterns; 4 panic contracts\"");
}
