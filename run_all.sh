#!/bin/sh
# Runs every claimed check (quick tier by default) on /repo's current tree and rewrites all evidence files.
cd "$(dirname "$0")"
TIER=${1:-quick}
rc=0
for p in $(python3 -c "import units; print(' '.join(sorted(units.UNITS)))"); do
  ./check $p --tier $TIER > build/run_$p.log 2>&1; r=$?
  tail -1 build/run_$p.log
  [ $r -ne 0 ] && rc=1
done
exit $rc
