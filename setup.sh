#!/bin/sh
# Offline setup: nothing to download. Creates scratch dirs and warms the Verus cache.
set -e
cd "$(dirname "$0")"
mkdir -p build replays evidence
verus --version >/dev/null
exit 0
