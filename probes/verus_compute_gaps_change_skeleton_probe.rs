use vstd::prelude::*;
use std::ops::RangeInclusive;
use std::cmp;
use std::ops::Add;

verus! {

#[derive(Copy, Clone, PartialEq, Eq, PartialOrd, Ord, Structural, Default)]
pub struct CrsqlDbVersion(pub u64);

impl vstd::std_specs::cmp::PartialOrdSpecImpl for CrsqlDbVersion {
    open spec fn obeys_partial_cmp_spec() -> bool { true }
    open spec fn partial_cmp_spec(&self, other: &CrsqlDbVersion) -> Option<core::cmp::Ordering> {
        if self.0 < other.0 { Some(core::cmp::Ordering::Less) } else if self.0 == other.0 { Some(core::cmp::Ordering::Equal) } else { Some(core::cmp::Ordering::Greater) }
    }
}

impl vstd::std_specs::ops::AddSpecImpl<u64> for CrsqlDbVersion {
    open spec fn obeys_add_spec() -> bool { true }
    open spec fn add_req(self, rhs: u64) -> bool { self.0 + rhs <= u64::MAX }
    open spec fn add_spec(self, rhs: u64) -> CrsqlDbVersion { CrsqlDbVersion((self.0 + rhs) as u64) }
}

impl Add<u64> for CrsqlDbVersion {
    type Output = Self;

    fn add(self, rhs: u64) -> Self::Output {
        Self(self.0 + rhs)
    }
}

pub assume_specification<Idx> [std::ops::RangeInclusive::<Idx>::start] (r: &RangeInclusive<Idx>) -> (s: &Idx)
    ensures *s == r@.start;
pub assume_specification<Idx> [std::ops::RangeInclusive::<Idx>::end] (r: &RangeInclusive<Idx>) -> (s: &Idx)
    ensures *s == r@.end;

pub open spec fn opt_val(a: Option<CrsqlDbVersion>) -> int { match a { Some(v) => v.0 as int, None => -1 } }

pub uninterp spec fn spec_max<T>(a: T, b: T) -> T;

pub assume_specification<T: core::cmp::Ord> [core::cmp::max::<T>] (a: T, b: T) -> (r: T)
    ensures r == spec_max(a, b);

pub axiom fn axiom_max_opt_version(a: Option<CrsqlDbVersion>, b: Option<CrsqlDbVersion>)
    ensures spec_max(a, b) == (if opt_val(a) > opt_val(b) { a } else { b });

// ---- stand-in: rangemap::RangeInclusiveSet ----
#[verifier::external_body]
#[verifier::accept_recursive_types(T)]
pub struct RangeInclusiveSet<T> { p: core::marker::PhantomData<T> }

#[verifier::external_body]
#[verifier::accept_recursive_types(T)]
pub struct RangeIter<T> { p: core::marker::PhantomData<T> }

pub uninterp spec fn iter_rest<T>(it: RangeIter<T>) -> Seq<RangeInclusive<T>>;

impl<T> Iterator for RangeIter<T> {
    type Item = RangeInclusive<T>;
    #[verifier::external_body]
    fn next(&mut self) -> (r: Option<RangeInclusive<T>>) { unimplemented!() }
}

impl<T> vstd::std_specs::iter::IteratorSpecImpl for RangeIter<T> {
    open spec fn obeys_prophetic_iter_laws(&self) -> bool { true }
    open spec fn remaining(&self) -> Seq<RangeInclusive<T>> { iter_rest(*self) }
    open spec fn will_return_none(&self) -> bool { true }
    open spec fn decrease(&self) -> Option<nat> { Some(iter_rest(*self).len()) }
    open spec fn peek(&self, i: int) -> Option<RangeInclusive<T>> { if 0 <= i < iter_rest(*self).len() { Some(iter_rest(*self)[i]) } else { None } }
}

#[verifier::external_body]
#[verifier::accept_recursive_types(T)]
pub struct RefRangeIter<'a, T> { p: core::marker::PhantomData<&'a T> }

pub uninterp spec fn ref_iter_rest<'a, T>(it: RefRangeIter<'a, T>) -> Seq<&'a RangeInclusive<T>>;

impl<'a, T> Iterator for RefRangeIter<'a, T> {
    type Item = &'a RangeInclusive<T>;
    #[verifier::external_body]
    fn next(&mut self) -> (r: Option<&'a RangeInclusive<T>>) { unimplemented!() }
}

impl<'a, T> vstd::std_specs::iter::IteratorSpecImpl for RefRangeIter<'a, T> {
    open spec fn obeys_prophetic_iter_laws(&self) -> bool { true }
    open spec fn remaining(&self) -> Seq<&'a RangeInclusive<T>> { ref_iter_rest(*self) }
    open spec fn will_return_none(&self) -> bool { true }
    open spec fn decrease(&self) -> Option<nat> { Some(ref_iter_rest(*self).len()) }
    open spec fn peek(&self, i: int) -> Option<&'a RangeInclusive<T>> { if 0 <= i < ref_iter_rest(*self).len() { Some(ref_iter_rest(*self)[i]) } else { None } }
}

impl<T> RangeInclusiveSet<T> {
    #[verifier::external_body]
    pub fn overlapping<'a>(&'a self, r: &RangeInclusive<T>) -> (it: RefRangeIter<'a, T>) { unimplemented!() }
    #[verifier::external_body]
    pub fn get(&self, v: &T) -> (r: Option<&RangeInclusive<T>>) { unimplemented!() }
    #[verifier::external_body]
    pub fn insert(&mut self, r: RangeInclusive<T>) { unimplemented!() }
    #[verifier::external_body]
    pub fn remove(&mut self, r: RangeInclusive<T>) { unimplemented!() }
    #[verifier::external_body]
    pub fn new() -> (r: Self) { unimplemented!() }
}

impl<T> Default for RangeInclusiveSet<T> {
    #[verifier::external_body]
    fn default() -> (r: Self) { unimplemented!() }
}
impl Default for RangeHashSet {
    #[verifier::external_body]
    fn default() -> (r: Self) { unimplemented!() }
}

impl<T> Clone for RangeInclusiveSet<T> {
    #[verifier::external_body]
    fn clone(&self) -> (r: Self) { unimplemented!() }
}

impl<T> IntoIterator for RangeInclusiveSet<T> {
    type Item = RangeInclusive<T>;
    type IntoIter = RangeIter<T>;
    #[verifier::external_body]
    fn into_iter(self) -> (r: RangeIter<T>) { unimplemented!() }
}

#[verifier::external_body]
pub struct RangeHashSet { p: core::marker::PhantomData<u8> }
impl RangeHashSet {
    #[verifier::external_body]
    pub fn insert(&mut self, r: RangeInclusive<CrsqlDbVersion>) -> bool { unimplemented!() }
    #[verifier::external_body]
    pub fn new() -> (r: Self) { unimplemented!() }
}

pub struct GapsChanges {
    max: Option<CrsqlDbVersion>,
    insert_set: RangeInclusiveSet<CrsqlDbVersion>,
    remove_ranges: RangeHashSet,
}

pub struct VersionsSnapshot {
    needed: RangeInclusiveSet<CrsqlDbVersion>,
    max: Option<CrsqlDbVersion>,
}

impl VersionsSnapshot {
    fn compute_gaps_change(&self, versions: RangeInclusiveSet<CrsqlDbVersion>) -> GapsChanges {
        let mut changes = GapsChanges {
            // set as the current max
            max: self.max,

            insert_set: Default::default(),
            remove_ranges: Default::default(),
        };

        for versions in versions.clone() {
            // only update the max if it's bigger
            changes.max = cmp::max(changes.max, Some(*versions.end()));

            // iterate all partially or fully overlapping changes
            for range in self.needed.overlapping(&versions) {
                // insert the overlapping range in the set (collapses ajoining ranges)
                changes.insert_set.insert(range.clone());
                // remove the range, they'll be added back from the insert set ^
                changes.remove_ranges.insert(range.clone());
            }

            // check if there's a previous range with an end version = start version - 1
            if let Some(range) = self.needed.get(&CrsqlDbVersion(versions.start().0 - 1)) {
                // insert the collapsible range
                changes.insert_set.insert(range.clone());
                // remove the collapsible range
                changes.remove_ranges.insert(range.clone());
            }

            // check if there's a next range with an start version = end version + 1
            if let Some(range) = self.needed.get(&CrsqlDbVersion(versions.end().0 + 1)) {
                // insert the collapsible range
                changes.insert_set.insert(range.clone());
                // remove the collapsible range
                changes.remove_ranges.insert(range.clone());
            }

            // either a max or 0
            // TODO: figure out if we want to use 0 instead of None in the struct by default
            let current_max = self.max.unwrap_or_default();

            // check if there's a gap created between our current max and the start version we just inserted
            let gap_start = current_max + 1;
            if gap_start < *versions.start() {
                let range = gap_start..=*versions.start();
                changes.insert_set.insert(range.clone());
                for range in self.needed.overlapping(&range) {
                    changes.insert_set.insert(range.clone());
                    changes.remove_ranges.insert(range.clone());
                }
            }
        }

        for versions in versions {
            // we now know the applied versions
            changes.insert_set.remove(versions.clone());
        }

        changes
    }
}

}
fn main() {}
