use vstd::prelude::*;

verus! {

// ---------- stand-ins (assumed contracts on dependencies) ----------
#[derive(Copy, Clone, PartialEq, Eq, Structural)]
pub struct CrsqlSeq(pub u64);

impl vstd::std_specs::ops::AddSpecImpl<u64> for CrsqlSeq {
    open spec fn obeys_add_spec() -> bool { true }
    open spec fn add_req(self, rhs: u64) -> bool { self.0 + rhs <= u64::MAX }
    open spec fn add_spec(self, rhs: u64) -> CrsqlSeq { CrsqlSeq((self.0 + rhs) as u64) }
}

impl core::ops::Add<u64> for CrsqlSeq {
    type Output = Self;

    fn add(self, rhs: u64) -> Self::Output {
        Self(self.0 + rhs)
    }
}

pub struct Change {
    pub seq: CrsqlSeq,
    pub payload: u64,
}

impl Clone for Change {
    fn clone(&self) -> (r: Self)
        ensures r == *self
    {
        Change { seq: self.seq, payload: self.payload }
    }
}

impl Change {
    #[verifier::external_body]
    pub fn estimated_byte_size(&self) -> (r: usize)
        ensures r == spec_size(*self)
    {
        unimplemented!()
    }
}

pub uninterp spec fn spec_size(c: Change) -> usize;

pub struct SqlError;

#[verifier::external_body]
#[verifier::accept_recursive_types(I)]
pub struct Peekable<I> { i: core::marker::PhantomData<I> }

impl<I> Peekable<I> {
    pub uninterp spec fn rest(&self) -> Seq<Result<Change, SqlError>>;

    #[verifier::external_body]
    pub fn next(&mut self) -> (r: Option<Result<Change, SqlError>>)
        ensures
            old(self).rest().len() == 0 ==> r.is_none() && final(self).rest() == old(self).rest(),
            old(self).rest().len() > 0 ==> r == Some(old(self).rest()[0]) && final(self).rest() == old(self).rest().subrange(1, old(self).rest().len() as int),
    {
        unimplemented!()
    }

    #[verifier::external_body]
    pub fn peek(&mut self) -> (r: Option<&Result<Change, SqlError>>)
        ensures
            final(self).rest() == old(self).rest(),
            r.is_none() <==> old(self).rest().len() == 0,
    {
        unimplemented!()
    }
}

#[verifier::external_body]
pub fn drain_all<T>(v: &mut Vec<T>) -> (r: Vec<T>)
    ensures r@ == old(v)@, final(v)@.len() == 0
{
    unimplemented!()
}

pub struct ChunkedChanges<I> {
    iter: Peekable<I>,
    changes: Vec<Change>,
    last_pushed_seq: CrsqlSeq,
    last_start_seq: CrsqlSeq,
    last_seq: CrsqlSeq,
    max_buf_size: usize,
    buffered_size: usize,
    done: bool,
}


pub open spec fn all_ok(s: Seq<Result<Change, SqlError>>) -> bool {
    forall|i: int| 0 <= i < s.len() ==> s[i].is_ok()
}

pub open spec fn seq_of(s: Seq<Result<Change, SqlError>>, i: int) -> u64 {
    s[i]->Ok_0.seq.0
}

pub open spec fn increasing_within(s: Seq<Result<Change, SqlError>>, lo: u64, hi: u64) -> bool {
    &&& forall|i: int| 0 <= i < s.len() ==> lo <= #[trigger] seq_of(s, i) <= hi
    &&& forall|i: int, j: int| 0 <= i < j < s.len() ==> #[trigger] seq_of(s, i) < #[trigger] seq_of(s, j)
}

pub open spec fn total_size(s: Seq<Result<Change, SqlError>>) -> int
    decreases s.len()
{
    if s.len() == 0 { 0 } else { spec_size(s[0]->Ok_0) as int + total_size(s.subrange(1, s.len() as int)) }
}

pub proof fn lemma_total_size_nonneg(s: Seq<Result<Change, SqlError>>)
    ensures total_size(s) >= 0
    decreases s.len()
{
    if s.len() > 0 { lemma_total_size_nonneg(s.subrange(1, s.len() as int)); }
}

impl<I> ChunkedChanges<I> {
    spec fn inv(&self) -> bool {
        !self.done ==> {
            &&& self.changes@.len() == 0
            &&& all_ok(self.iter.rest())
            &&& self.last_start_seq.0 <= self.last_seq.0
            &&& self.last_seq.0 < u64::MAX
            &&& increasing_within(self.iter.rest(), self.last_start_seq.0, self.last_seq.0)
            &&& total_size(self.iter.rest()) <= usize::MAX
        }
    }

    fn next(&mut self) -> (r: Option<Result<(Vec<Change>, (CrsqlSeq, CrsqlSeq)), SqlError>>)
        requires old(self).inv()
        ensures
            final(self).inv(),
            old(self).done ==> r.is_none(),
            !old(self).done ==> match r {
                Some(Ok((chunk, range))) => {
                    let k = chunk@.len() as int;
                    &&& k <= old(self).iter.rest().len()
                    &&& forall|i: int| 0 <= i < k ==> chunk@[i] == old(self).iter.rest()[i]->Ok_0
                    &&& final(self).iter.rest() == old(self).iter.rest().subrange(k, old(self).iter.rest().len() as int)
                    &&& range.0 == old(self).last_start_seq
                    &&& forall|i: int| 0 <= i < k ==> range.0.0 <= (#[trigger] chunk@[i]).seq.0 && chunk@[i].seq.0 <= range.1.0
                    &&& final(self).last_seq == old(self).last_seq
                    &&& final(self).done ==> range.1 == old(self).last_seq && final(self).iter.rest().len() == 0
                    &&& !final(self).done ==> k >= 1 && range.1 == chunk@[k - 1].seq && final(self).last_start_seq.0 == range.1.0 + 1 && final(self).iter.rest().len() > 0
                },
                _ => false,
            },
    {
        // previously marked as done because the Rows iterator returned None
        if self.done {
            return None;
        }

        // reset the buffered size
        self.buffered_size = 0;

        loop
            invariant_except_break
                self.changes@.len() > 0 ==> self.last_pushed_seq.0 < self.last_seq.0,
            invariant
                !self.done,
                all_ok(self.iter.rest()),
                self.last_start_seq == old(self).last_start_seq,
                self.last_seq == old(self).last_seq,
                self.last_start_seq.0 <= self.last_seq.0,
                self.last_seq.0 < u64::MAX,
                self.changes@.len() <= old(self).iter.rest().len(),
                forall|i: int| 0 <= i < self.changes@.len() ==> self.changes@[i] == old(self).iter.rest()[i]->Ok_0,
                self.iter.rest() == old(self).iter.rest().subrange(self.changes@.len() as int, old(self).iter.rest().len() as int),
                increasing_within(old(self).iter.rest(), self.last_start_seq.0, self.last_seq.0),
                self.changes@.len() > 0 ==> self.last_pushed_seq == self.changes@[self.changes@.len() - 1].seq,
                self.changes@.len() > 0 ==> self.last_pushed_seq.0 <= self.last_seq.0,
                forall|i: int| 0 <= i < self.changes@.len() ==> self.last_start_seq.0 <= (#[trigger] self.changes@[i]).seq.0 && self.changes@[i].seq.0 <= self.last_pushed_seq.0,
                self.buffered_size as int + total_size(self.iter.rest()) <= usize::MAX,
            ensures
                self.iter.rest().len() == 0,
            decreases self.iter.rest().len()
        {
            let ghost r0 = self.iter.rest();
            proof {
                if r0.len() > 0 {
                    assert(total_size(r0) == spec_size(r0[0]->Ok_0) as int + total_size(r0.subrange(1, r0.len() as int)));
                    assert(total_size(r0.subrange(1, r0.len() as int)) >= 0) by { lemma_total_size_nonneg(r0.subrange(1, r0.len() as int)); }
                }
            }
            let ghost n0 = self.changes@.len() as int;
            match self.iter.next() {
                Some(Ok(change)) => {
                    self.last_pushed_seq = change.seq;

                    proof {
                        let o = old(self).iter.rest();
                        assert(r0 == o.subrange(n0, o.len() as int));
                        assert(r0.len() > 0);
                        assert(r0[0] == o[n0]);
                        assert(r0[0] == Ok::<Change, SqlError>(change));
                        assert(seq_of(o, n0) == change.seq.0);
                        assert(seq_of(o, n0) == self.last_pushed_seq.0);
                        assert(self.last_start_seq.0 <= seq_of(o, n0) <= self.last_seq.0);
                    }
                    self.buffered_size += change.estimated_byte_size();

                    let ghost prev_changes = self.changes@;
                    self.changes.push(change);
                    proof {
                        let o = old(self).iter.rest();
                        assert forall|i: int| 0 <= i < self.changes@.len() implies self.last_start_seq.0 <= (#[trigger] self.changes@[i]).seq.0 && self.changes@[i].seq.0 <= self.last_pushed_seq.0 by {
                            if i < n0 {
                                assert(self.changes@[i] == prev_changes[i]);
                                assert(prev_changes[i] == o[i]->Ok_0);
                                assert(seq_of(o, i) < seq_of(o, n0));
                            }
                        }
                    }

                    if self.last_pushed_seq == self.last_seq {
                        // this was the last seq! break early
                        proof {
                            let o = old(self).iter.rest();
                            let rr = self.iter.rest();
                            assert(rr == r0.subrange(1, r0.len() as int));
                            assert(r0 == o.subrange(n0, o.len() as int));
                            if rr.len() > 0 {
                                assert(rr[0] == r0[1]);
                                assert(r0[1] == o[n0 + 1]);
                                assert(seq_of(o, n0) < seq_of(o, n0 + 1));
                                assert(seq_of(o, n0 + 1) <= self.last_seq.0);
                                assert(seq_of(o, n0) == self.last_seq.0);
                            }
                        }
                        break;
                    }

                    if self.buffered_size >= self.max_buf_size {
                        // chunking it up
                        let start_seq = self.last_start_seq;

                        if self.iter.peek().is_none() {
                            // no more rows, break early
                            break;
                        }

                        // prepare for next round! we're not done...
                        self.last_start_seq = self.last_pushed_seq + 1;
                        proof {
                            let o = old(self).iter.rest();
                            let rr = self.iter.rest();
                            assert(rr == r0.subrange(1, r0.len() as int));
                            assert(r0 == o.subrange(n0, o.len() as int));
                            assert(rr =~= o.subrange(n0 + 1, o.len() as int));
                            assert(seq_of(o, n0) == self.last_pushed_seq.0);
                            assert forall|i: int| 0 <= i < rr.len() implies self.last_start_seq.0 <= #[trigger] seq_of(rr, i) <= self.last_seq.0 by {
                                assert(rr[i] == o[n0 + 1 + i]);
                                assert(seq_of(o, n0) < seq_of(o, n0 + 1 + i));
                                assert(seq_of(rr, i) == seq_of(o, n0 + 1 + i));
                            }
                            assert forall|i: int, j: int| 0 <= i < j < rr.len() implies #[trigger] seq_of(rr, i) < #[trigger] seq_of(rr, j) by {
                                assert(rr[i] == o[n0 + 1 + i]);
                                assert(rr[j] == o[n0 + 1 + j]);
                                assert(seq_of(o, n0 + 1 + i) < seq_of(o, n0 + 1 + j));
                            }
                            assert(all_ok(rr));
                            lemma_total_size_nonneg(rr);
                        }

                        return Some(Ok((
                            drain_all(&mut self.changes),
                            (start_seq, self.last_pushed_seq),
                        )));
                    }
                }
                None => {
                    break;
                }
                Some(Err(e)) => return Some(Err(e)),
            }
        }

        self.done = true;

        // return buffered changes
        Some(Ok((
            self.changes.clone(),                // no need to drain here like before
            (self.last_start_seq, self.last_seq), // even if empty, this is all we have still applied
        )))
    }
}

} // verus!

fn main() {}
