use vstd::prelude::*;
use std::ops::RangeInclusive;
use std::cmp;
verus! {

#[derive(Copy, Clone, PartialEq, Eq, PartialOrd, Ord)]
pub struct V(pub u64);

impl vstd::std_specs::cmp::PartialOrdSpecImpl for V {
    open spec fn obeys_partial_cmp_spec() -> bool { true }
    open spec fn partial_cmp_spec(&self, other: &V) -> Option<core::cmp::Ordering> {
        if self.0 < other.0 { Some(core::cmp::Ordering::Less) } else if self.0 == other.0 { Some(core::cmp::Ordering::Equal) } else { Some(core::cmp::Ordering::Greater) }
    }
}

pub open spec fn ri_start<T>(r: RangeInclusive<T>) -> T { r@.start }
pub open spec fn ri_end<T>(r: RangeInclusive<T>) -> T { r@.end }

pub assume_specification<Idx> [std::ops::RangeInclusive::<Idx>::start] (r: &RangeInclusive<Idx>) -> (s: &Idx)
    ensures *s == ri_start(*r);
pub assume_specification<Idx> [std::ops::RangeInclusive::<Idx>::end] (r: &RangeInclusive<Idx>) -> (s: &Idx)
    ensures *s == ri_end(*r);
fn t1(a: V, b: V) -> (r: bool)
    ensures r == (a.0 < b.0)
{
    a < b
}

fn t2(r: &RangeInclusive<u64>) -> (x: u64)
    ensures x == ri_start(*r)
{
    *r.start()
}

fn t3(a: u64, b: u64) -> (r: RangeInclusive<u64>)
    requires a <= b
    ensures ri_start(r) == a, ri_end(r) == b
{
    a..=b
}

fn t5(a: V, b: V) -> (r: RangeInclusive<V>)
    ensures ri_start(r) == a
{
    a..=b
}

}
fn main() {}
