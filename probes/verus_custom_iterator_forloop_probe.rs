use vstd::prelude::*;
use vstd::std_specs::iter::IteratorSpec;
verus! {
pub struct MyIter { pos: usize, data: Vec<u64> }
impl Iterator for MyIter {
    type Item = u64;
    #[verifier::external_body]
    fn next(&mut self) -> (r: Option<u64>) { unimplemented!() }
}
pub uninterp spec fn my_rest(it: MyIter) -> Seq<u64>;
impl vstd::std_specs::iter::IteratorSpecImpl for MyIter {
    open spec fn obeys_prophetic_iter_laws(&self) -> bool { true }
    open spec fn remaining(&self) -> Seq<u64> { my_rest(*self) }
    open spec fn will_return_none(&self) -> bool { true }
    open spec fn decrease(&self) -> Option<nat> { Some(my_rest(*self).len()) }
    open spec fn peek(&self, i: int) -> Option<u64> { if 0 <= i < my_rest(*self).len() { Some(my_rest(*self)[i]) } else { None } }
}

#[verifier::external_body]
fn mk(v: &Vec<u64>) -> (r: MyIter)
    ensures r.remaining() == v@
{ unimplemented!() }

fn sum_small(v: &Vec<u64>) -> (r: u64)
    requires forall|i: int| 0 <= i < v@.len() ==> v@[i] <= 10, v@.len() <= 100
    ensures r <= 1000
{
    let mut acc: u64 = 0;
    for x in g: mk(v)
        invariant acc <= 10 * g.index@, g.seq() == v@, v@.len() <= 100, forall|i: int| 0 <= i < v@.len() ==> v@[i] <= 10
    {
        acc += x;
    }
    acc
}

fn all_small(v: &Vec<u64>) -> (r: bool)
    ensures r ==> forall|i: int| 0 <= i < v@.len() ==> v@[i] <= 10
{
    mk(v).all(|x: u64| x <= 10)
}
}
fn main() {}
