use vstd::prelude::*;
verus! {

#[verifier::external_body]
#[verifier::accept_recursive_types(V)]
pub struct MyMap<V> { p: core::marker::PhantomData<V> }

impl<V> MyMap<V> {
    pub uninterp spec fn view(&self) -> Map<u64, V>;

    #[verifier::external_body]
    pub fn new() -> (r: Self) ensures r@ == Map::<u64, V>::empty() { unimplemented!() }

    #[verifier::external_body]
    pub fn entry_or_default(&mut self, k: u64) -> (r: &mut Vec<u64>)
        where V: Sized
    { unimplemented!() }
}

#[verifier::external_body]
#[verifier::accept_recursive_types(V)]
pub struct Ent<'a, V> { p: core::marker::PhantomData<&'a mut V> }

pub struct M2 { pub m: Vec<Vec<u64>> }

impl M2 {
    pub fn slot(&mut self, i: usize) -> (r: &mut Vec<u64>)
        requires i < old(self).m@.len()
        ensures *r == old(self).m@[i as int], final(self).m@.len() == old(self).m@.len(),
           final(self).m@[i as int] == *final(r),
           forall|j: int| 0 <= j < old(self).m@.len() && j != i ==> final(self).m@[j] == old(self).m@[j]
    {
        &mut self.m[i]
    }
}

fn test(m: &mut M2)
    requires old(m).m@.len() == 2
    ensures final(m).m@[0]@ == old(m).m@[0]@.push(7)
{
    m.slot(0).push(7);
}

}
fn main() {}
