use rangemap::RangeInclusiveSet;
use bytes::{Buf, BufMut};

pub fn num_bytes_needed_i64(val: i64) -> u8 {
    if val & 0xFF00000000000000u64 as i64 != 0 {
        8
    } else if val & 0x00FF000000000000 != 0 {
        7
    } else if val & 0x0000FF0000000000 != 0 {
        6
    } else if val & 0x000000FF00000000 != 0 {
        5
    } else {
        num_bytes_needed_i32(val as i32)
    }
}

fn num_bytes_needed_i32(val: i32) -> u8 {
    if val & 0xFF000000u32 as i32 != 0 {
        4
    } else if val & 0x00FF0000 != 0 {
        3
    } else if val & 0x0000FF00 != 0 {
        2
    } else if val * 0x000000FF != 0 {
        1
    } else {
        0
    }
}

pub fn pack_int(val: i64) -> Vec<u8> {
    let mut buf = vec![];
    let n = num_bytes_needed_i64(val);
    buf.put_u8(n << 3 | 1);
    buf.put_int(val, n as usize);
    buf
}

pub fn unpack_int(mut buf: &[u8]) -> Option<i64> {
    let t = buf.get_u8();
    let intlen = (t >> 3) as usize;
    if buf.remaining() < intlen { return None; }
    Some(buf.get_int(intlen))
}

#[cfg(kani)]
mod proofs {
    use super::*;

    #[kani::proof]
    #[kani::unwind(10)]
    fn roundtrip_int() {
        let v: i64 = kani::any();
        let p = pack_int(v);
        let u = unpack_int(&p);
        assert!(u == Some(v));
    }

    #[kani::proof]
    #[kani::unwind(8)]
    fn rangeset_small() {
        let a: u8 = kani::any();
        let b: u8 = kani::any();
        let c: u8 = kani::any();
        let d: u8 = kani::any();
        kani::assume(a <= b && c <= d && b < 8 && d < 8);
        let mut s: RangeInclusiveSet<u8> = RangeInclusiveSet::new();
        s.insert(a..=b);
        s.insert(c..=d);
        let x: u8 = kani::any();
        kani::assume(x < 10);
        assert_eq!(s.contains(&x), (a <= x && x <= b) || (c <= x && x <= d));
    }
}
