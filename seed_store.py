#!/usr/bin/env python3
"""seed_store.py <id> <property> <agent_seed_dir> <X> <needs> <confirmed> <detected_by>"""
import sys, os, shutil, json
sid, prop, d, x, needs, confirmed, detected = sys.argv[1:8]
out = os.path.join(os.path.dirname(os.path.abspath(__file__)), "seeded", sid)
os.makedirs(out, exist_ok=True)
shutil.copy(os.path.join(d, x + ".diff"), os.path.join(out, "patch.diff"))
shutil.copy(os.path.join(d, x + "_demo.diff"), os.path.join(out, "demo.diff"))
if os.path.exists(os.path.join(d, x + ".md")):
    shutil.copy(os.path.join(d, x + ".md"), os.path.join(out, "notes.md"))
json.dump({"id": sid, "property": prop, "needs_to_manifest": needs, "confirmed": confirmed, "detected_by": detected,
           "how_to_run": "git -C /repo apply /verif/seeded/%s/patch.diff && (cd /verif && ./check %s); git -C /repo checkout -- ." % (sid, prop)},
          open(os.path.join(out, "meta.json"), "w"), indent=1)
print("stored", out)
