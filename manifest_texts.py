HOOKS = {
    "guard": "none",
    "enable": "no source hooks: every verifier input is extracted mechanically from /repo's working tree by /verif/vx on each run; /repo is built unmodified",
    "baseline_off_cmd": "cd /repo && cargo test --workspace --no-fail-fast --offline",
    "source_commits": [],
    "add_only": True,
}

NOTES = ("Contract-based deductive verification. Each check extracts the real functions a property depends on from /repo's working tree "
         "(vx, rewrites listed in the evidence), splices the contracts of /verif/specs, and lets Verus (unbounded) or Kani/CBMC (complete where loop-free, "
         "otherwise labelled bounded and not counted) discharge every obligation. Exit 2 = undecided (lost anchor / unsupported construct / solver limit), never an alarm.")

CLAIMS = {'C07': {'technique': 'structural sequencing/dominance obligations on the real text of make_broadcastable_changes, insert_local_changes and broadcast_changes '
                      '(extractor-discharged) + Verus contracts on the statement-closure fragment and two fragments of broadcast_changes',
         'text': 'Obligations on the real code that the user statements, the bookkeeping insert and tx.commit() run in this order with `?` propagation; that '
                 'the closure running the statements is Ok only if every statement succeeded; that the bookkeeping snapshot is committed and the broadcast '
                 "spawned only after the database commit and only when a version was produced (never inside insert_local_changes); that 'no version' is "
                 "concluded only from the transaction's own rows in crsql_changes and books nothing; that the booked version is exactly the peeked next "
                 "db_version; (Verus) that the version's rows are chunked from seq 0 to last_seq and each chunk is announced unchanged with its own seq range; "
                 "that rows reach the chunker in ascending seq order and are queued with a waiting send. Rollback on failure and 'exactly one greater' are "
                 'SQLite / cr-sqlite behaviour and are assumed.',
         'note': 'Structural obligations are syntactic facts about the real text, reported as such. Assumed: rusqlite transaction semantics, '
                 'crsql_peek_next_db_version, tiling of the chunker (proved under C08).'},
 'C09': {'technique': 'Verus contracts on the extracted hand-written speedy decoders (totality stand-ins: panic / reservation / unchecked-UTF-8 obligations) '
                      'and on the real pack_columns / unpack_columns against a spec of the documented key format; Verus contracts on the extracted hand-written '
                      'writer/reader pairs over a token-stream model of the wire (round trip); Kani complete proof of the packed-integer '
                      'width rule; structural obligation that every Vec<E> decoded by speedy itself has an element of positive minimum encoded size; replay '
                      'searches on the real crate (in a child process for aborts)',
         'text': 'Unbounded proof (any input length) that the four hand-written decoders cannot reach a panic, only reserve memory bounded by a constant or by '
                 "the bytes left in the reader, and only build Text from validated UTF-8; full-domain proof that num_bytes_needed_i64 is the extension's "
                 'minimal big-endian width; unbounded proof that unpack_columns is total and returns exactly what the documented packed-key format decodes to '
                 '(zero-extended integers/lengths) and that pack_columns emits exactly that format for up to 255 columns. A machine-checked lemma composes the '
                 'two contracts: decoding the encoding of any column list (<= 255 columns) gives back exactly that list. Round trip of the hand-written '
                 'codecs: the real writers of Changeset, SyncNeedV1, SyncStateV1, SqliteValue and of the newtypes under them emit exactly the documented token '
                 'layout and the real readers, handed that layout followed by anything, return the value and leave the rest (lists and maps of any size; '
                 'maps are written in iteration order and compared as maps). Derived (speedy-derive) codecs, frame-size limits and peak RSS are not decided.',
         'note': 'Assumed: speedy Reader and primitive/derived Readable impls are total and consume their minimum size; generic reader/error types replaced by '
                 'concrete stand-ins; `bytes` crate as compiled by Kani; one token per primitive value stands for speedy\'s own integer / slice / str / '
                 'Option / Vec / HashMap codecs being mutually inverse and self-delimiting; HashMap iteration order is a function of the map object.'},
 'C15': {'technique': 'Verus contracts on three anchored fragments of the real apply_schema (table-drop guard, per-table column/primary-key rules, new-column '
                      "rules with a ghost DDL log) + structural obligations on apply_schema's statement texts and on execute_schema's "
                      'transaction/commit/assignment order; replay on an in-memory cr-sqlite database',
         'text': 'Proof, for all pairs of current/new schemas (any tables, columns, definitions, key orders), of the additive rules the property lists: '
                 'apply_schema returns Ok only if every existing table is still present, every existing column of a table present in both is present and '
                 'unchanged, and the primary key is the same column sequence; a new column that is a primary key, or NOT NULL without a default, is rejected '
                 'before any DDL, otherwise exactly one ALTER TABLE … ADD COLUMN runs; exactly the indexes the new definition adds are created (never a unique '
                 'one) and exactly those it no longer lists are dropped, so re-applying the same definition creates and drops nothing. Structural: the only '
                 'DROP TABLE / RENAME texts sit in a branch closed by the changed-columns guard; execute_schema builds the candidate by inserting into a '
                 'clone, constrains it before any SQL, applies inside one immediate transaction committed with `?`, and replaces the in-memory schema only '
                 'after that succeeded, under the schema write lock. Not decided: what SQLite/cr-sqlite do with the DDL (rows kept, rollback), replacement of '
                 "changed indexes (a closure with `?`), Schema::constrain's own rules; restart is decided only as far as init_schema reads every persisted row "
                 '(keyed by the unique object name) and execute_schema refreshes those rows wholesale.',
         'note': 'Assumed: the HashSet-difference idiom and filter_map/collect are replaced by set-valued stand-ins keeping the real closure; derived '
                 'PartialEq on Column is field-wise; names are a stand-in text type; SQL AST payloads opaque.'},
 'C14': {'technique': 'Verus contracts on anchored fragments of the real update feed (cl-cache filter/buffering of one candidate, cache trim, the per-batch '
                      'notification loop, delete/update parity, the impacted-rows filter of process_complete_version) + structural obligations (both feeds fed '
                      'on all commit paths, positional column binding)',
         'text': 'Proof for all keys/causal lengths/cache contents that a candidate is dropped exactly when a strictly newer causal length of the same key was '
                 'already let through, that otherwise the pending notification and the cache carry this latest causal length, that trimming keeps the most '
                 'recent 1000 keys, that every key of a flushed batch is reported with its own fate (Delete iff its causal length is even), and that a remote '
                 'change reaches the feeds iff it impacted a row. Monotonicity is conditional on the key not having been evicted from the bounded cache. '
                 'Channel delivery inside match_changes is not decided.',
         'note': 'Assumed: ordered IndexMap stand-ins; TableName opaque; candidates reach batch_candidates; pk unpacking (C09).'},
 'C10': {'technique': 'Verus contracts on anchored fragments of the real ingest loop (duplicate suppression, drop-oldest eviction with loop invariant, cache '
                      "insertion), of process_multiple_changes' cleared decision and in-transaction skip, and on the real "
                      'BookedVersions::contains/contains_all; structural obligation that the loops over offered changesets have no early exit',
         'text': 'Proof for all cache contents / changesets / actor ids that a changeset is suppressed only if the seen-cache covers all of its (actor, '
                 'version, seq)s, that after a queue-full drop the cache no longer covers the dropped changeset (under its own actor id) and other entries are '
                 'untouched, that insertion adds exactly the offered seqs, that a version is booked as Cleared only for a complete and empty changeset, that a '
                 'changeset is passed over inside the write transaction iff the node already holds all of it (contains_all == every version known and every '
                 'offered seq received) and that this never abandons the changesets queued behind it. Liveness (applied after finitely many offers) and '
                 'JoinSet/back-pressure timing are not decided.',
         'note': 'Assumed: IndexMap/VecDeque stand-ins; let-chains desugared; queue/cost accounting invariant as precondition; well-ordered seq ranges (an '
                 'inverted range from a peer would panic rangemap at the cache insertion — noted in DESIGN).'},
 'C03': {'technique': 'Verus contracts on the extracted real Changeset accessors, on anchored fragments of process_multiple_changes / '
                      'process_incomplete_version / process_fully_buffered_changes / run_root (same-batch skip, seq-range merge + write-back, the three '
                      'completeness triggers), on send_change_chunks and the ingest cache fragments shared with C05/C10; structural obligations (SQL scoping, '
                      'column and parameter bindings, chunker construction sites, commit order)',
         'text': 'Proof for all changesets that is_complete() holds exactly when the seqs are 0..=last_seq; a chunk is skipped within a batch iff everything '
                 'it carries was recorded; the SQL seq-range merge selects exactly overlapping-or-adjacent rows and writes back one row covering new ∪ merged; '
                 "each of the three 'is it complete now' triggers fires iff no gap remains in 0..=last_seq; what a supplier sends for a range tiles it up to "
                 'the requested end with exactly the selected rows; a chunk shed from the ingest queue is forgotten by the duplicate cache. Atomic visibility '
                 'itself (one SQLite transaction + cr-sqlite merge) and liveness are not decided.',
         'note': 'Change payloads opaque. Shares PartialVersion::is_complete / insert_partial / from_conn obligations with C02. Structural obligations are '
                 'syntactic facts about the real text and are reported as such.'},
 'C05': {'technique': 'Verus contracts on anchored fragments of the real sync server (process_sync pre-filter, handle_need empties decisions, partial-range '
                      "clipping), on the whole send_change_chunks against the chunker's proved contract, + the literal SQL overlap clause translated to a spec "
                      'fn and proved equivalent to interval overlap; structural obligations (one read transaction per need, SQL scoped per actor)',
         'text': 'Proof, for all version ranges and bookkeeping states, that a need is skipped iff the server holds none of the requested versions (so held '
                 'versions are answered and unknown ones are met with silence), that a version is declared empty iff it is neither buffered nor a known gap, '
                 'and that the seq range sent for a buffered partial is exactly (buffered row) ∩ (requested range), rows being selected by SQL iff they '
                 'overlap. Safety guards only: SQL result contents and the chunk tiling across calls (see C08) are not decided here.',
         'note': 'Assumed: `buffered`/`in_gaps` are the EXISTS sub-query results; stand-ins for Option::is_some_and / RangeInclusive::all keep the real '
                 'closures; SQL fragment translated by vx/sqlpred.py (trusted), SQLite integer semantics mathematical.'},
 'C16': {'technique': 'Verus contracts on anchored fragments of the real code (uni payload dispatch, the whole per-stream receive loop of the uni handler with '
                      'a loop invariant, serve_sync prologue, sync-candidate filter closure, broadcast-target filter closure), extracted each run; Kani '
                      '(bounded) on the member table',
         'text': "Proof, for all cluster ids / members / payloads, of the four decision sites: a broadcast change is queued iff its payload's cluster id "
                 'equals ours, and along a whole stream every queued change was carried by a frame declaring our cluster id whatever came before on that '
                 'stream; serve_sync ends with exactly one Rejection(DifferentCluster) message and no data for a foreign cluster id; sync candidates and '
                 "broadcast targets are other members of the same cluster. End-to-end 'never applies' beyond these sites is not decided.",
         'note': 'Assumed: `.instrument(..).await` on the one awaited write is replaced by a ghost log; speedy default_on_eof; members map contents. The uni '
                 "handler's once-per-connection capture of the cluster id is noted, not covered."},
 'C17': {'technique': "Verus contract on the whole extracted require_authz middleware and on the query endpoint's read-only guard; structural obligations "
                      '(extractor-discharged) on router/middleware order, guard dominance and the use of the subscription text',
         'text': 'Proof that the middleware runs the inner handler iff no token is configured or the header carries exactly the configured token, whatever else '
                 'of the request it looks at, and rejects with 401 otherwise; structural obligations on the real builder chain that every .route() precedes the single authz layer and that the served app '
                 'is that router; the non-readonly guard returns a client error before any statement execution and dominates every query call; the text sent '
                 'to the subscription endpoint is only prepared for its column names and parsed, anything but one SELECT is rejected, and nothing is run on '
                 "the node's connection while the matcher is built.",
         'note': 'Assumed: axum Router::layer semantics, header parsing, sqlite3_stmt_readonly, sqlite3_prepare does not run a statement. A SELECT calling an '
                 'extension function with side effects is not decided. Structural '
                 'obligations are syntactic facts about the real text, reported as such.'},
 'C04': {'technique': 'Verus contracts on anchored fragments of the real SyncStateV1::compute_available_needs (guards, peer-held sets, Full-need loop, tail '
                      "request) and of parallel_sync's request de-duplication (full and partial, nested loop invariants), extracted each run",
         'text': 'Unbounded proof (any number of ranges, all u64 versions) that the Full requests computed for an actor are exactly our gap ranges intersected '
                 "with the peer's fully-held set (= 1..=head minus its needs minus its partials), that nothing is requested for the node's own actor id or a "
                 'zero head and nothing else is skipped, that the tail request is (our_head+1 ..= peer_head), that for a doubly-partial version the peer holds '
                 'seqs 0..=end minus its missing ranges, and that the per-round de-duplication removes from a need exactly what was already requested for that '
                 "originating actor (and version). Not decided: the flat_map/collect chain intersecting our missing seqs with the peer's held seqs.",
         'note': 'Fragments are wrapped as functions over their free variables (self->this, continue->return). Assumed: contracts of '
                 'RangeInclusiveSet::overlapping, HashMap get/entry().or_default(), cmp::max/min on &newtype.'},
 'C18': {'technique': 'Verus contracts on the extracted real Members::{remove_member, add_member, add_rtt} / MemberState::{new,is_ring0} (maps of any size; '
                      "add_member's or_insert_with desugared to the entry match); Kani inductive transition contracts on the extracted add_member / "
                      'recalculate_rings / ring0 (bounded state, labelled bounded); replay search on the real crate',
         'text': 'remove_member, add_member (an older or equal identity changes nothing; a newer one replaces address, timestamp and cluster id and re-indexes '
                 "the address; an unknown peer is listed as announced; other members' identities and address-index entries untouched), add_rtt's sample, MemberState::new and is_ring0 "
                 'are proved unbounded in Verus against the newest-identity statement, and a machine-checked induction over those two contracts (lemma_follows) '
                 'gives the whole-history statement: after any notification sequence the SWIM layer can emit (premises explicit) a peer is listed iff an up of '
                 'its newest identity is not followed by a down of it, with that identity and an announcing up\'s address and cluster. recalculate_rings and ring0 are closure/iterator chains Verus cannot '
                 'take; they (and add_member again, with its address-index invariant) are checked by Kani as inductive steps from an arbitrary state with <=2 '
                 'members (history length unbounded, state size bounded) and are reported as bounded stand-ins, not as proved.',
         'note': 'Assumed: std BTreeMap contract; Kani unit replaces BTreeMap/CircularBuffer/ActorId/SocketAddr/Timestamp by small stand-ins (listed in '
                 "evidence). SWIM premises: live peers do not share an address; down notifications carry the identity's own address; an up is never older "
                 "than an identity already reported down; a down is about an identity reported up before; the table starts empty."},
 'C12': {'technique': 'Verus function contracts on the extracted real klukai-client SubscriptionStream::{handle_change,handle_eoq} + verified driver '
                      '(inductive consecutive-ids statement); Verus contracts with loop invariants on two anchored fragments of the real server-side '
                      'catch_up_sub (catch-up retry loop, hand-over to the buffered live events); structural obligations on the lag/overflow exits',
         'text': 'Unbounded proof (all u64 ids, all event sequences) of the client-library clause: an event is accepted iff its id is exactly last+1, a gap is '
                 'reported as MissedChange{expected,got} and leaves the resume point unchanged. Server clause: for every outcome of the change-log reads and '
                 'every run of buffered live events (the two points where the race with committed changes enters), the ids written to the subscriber during '
                 'catch-up and hand-over are consecutive from the snapshot/resume point, the catch-up loop only hands over once it has reached the first '
                 'buffered live event, every newer buffered event is forwarded exactly once, and a lagged broadcast receiver / overflowing buffer stops the '
                 'stream. Not decided: the snapshot read itself (all_rows in one read transaction) and pruning of the change log below the resume point.',
         'note': 'Field projection of SubscriptionStream to (observed_eoq,last_change_id); SubscriptionError reduced to the one variant the functions build; '
                 'ids < u64::MAX assumed.'},
 'C02': {'technique': 'Verus function contracts on the extracted real bookkeeping functions (PartialVersion::{is_complete,full_range}, '
                      'BookedVersions::{contains_version,contains,contains_all,insert_partial,snapshot,commit_snapshot}, '
                      'VersionsSnapshot::{compute_gaps_change,insert_db}) and on anchored fragments (generate_sync per actor, cleared-range head, seq-range '
                      'merge and write-back) against a set-valued view of RangeInclusiveSet; structural obligations on from_conn, the persist-before-publish '
                      'order and SQL scoping/parameters',
         'text': 'Unbounded proof (Verus/Z3, all range sets / all u64 values, loop invariants): a version is known iff <= head and not needed; '
                 "compute_gaps_change yields head = max, needed' = (needed ∪ new tail) minus the inserted versions, deleted rows are stored rows; insert_db "
                 "keeps 'persisted gap rows == stored needed ranges' as an inductive invariant (one-row deletes, collision-free inserts); a partial is "
                 'complete iff every seq 0..=last_seq was received and its record is the union of received chunks, persisted as one row with the merged '
                 'bounds; generate_sync advertises per actor head, gap ranges and exactly the missing seqs of incomplete partials; a cleared range moves the '
                 'persisted head to max(head, end). Structural: from_conn load order and column binding; bookkeeping rows written before tx.commit()?, '
                 "in-memory view advanced only after it. Not decided: SQLite durability, cr-sqlite's own head bump for non-empty versions.",
         'note': 'Assumed: the contract of rangemap::RangeInclusiveSet (lib/rangeset.vrs; differential depcheck against the real crate is bounded), derived '
                 'Ord on the u64 newtypes, SQL statements of insert_db bound to ghost-table stand-ins with the real parameter expressions.'},
 'C08': {'technique': 'Verus function contracts + loop invariants on the extracted real ChunkedChanges::{new,next,set_max_buf_size} with a verified whole-run '
                      'driver, on the whole send_change_chunks against that contract, and on the clip / de-duplication fragments shared with C05/C04; Kani '
                      '(bounded) on chunk_range; structural obligations on every chunker construction site',
         'text': 'Unbounded proof (Verus/Z3) that every call of the real ChunkedChanges::next returns a prefix of the remaining rows with a range that starts '
                 'where the previous ended, contains its changes, and that a full run tiles [start,last] and concatenates to the input, for every input '
                 'sequence, every size limit and limit changes between calls; that send_change_chunks sends consecutive ranges from the requested start to the '
                 'requested end carrying exactly those rows; that every chunker is constructed with the very (start, end) its rows were selected with, in '
                 "ascending seq order; that the range tiled for a partially buffered version is (buffered) ∩ (requested). chunk_range's union = request is "
                 'checked by Kani with stated bounds.',
         'note': 'Assumed: contracts of Peekable::{next,peek}, Vec::drain(..).collect(), Change::estimated_byte_size (uninterpreted); input rows Ok and '
                 'strictly increasing in seq within [start,last] (SQL ORDER BY at call sites). chunk_range (version sub-ranges): see evidence for its status.'}}

NOT_APPLICABLE = {'C01': 'multi-node history/schedule liveness whose merge runs inside cr-sqlite; no function contract expresses it (per-node kernels are proved under the '
        'claimed properties)',
 'C06': 'quantifies over crash points and SQLite WAL durability; not a pre/postcondition of any Rust function',
 'C11': 'incremental view maintenance is generated SQL over arbitrary user SELECTs, executed by SQLite; no Verus/Kani contract can state equality with '
        're-evaluation',
 'C13': 'depends on process stop points and sub-database contents; only a string guard is contract-shaped',
 'C19': 'behaviour is SQL (VACUUM INTO, ordinal rewrites) + file locking across processes',
 'C20': 'tokio concurrency (exclusion, priority, deadlock freedom); outside Kani (no threads) and Verus (needs its own sync primitives)'}

HOOKS = {'guard': 'none',
 'enable': "no source hooks: every verifier input is extracted mechanically from /repo's working tree by /verif/vx on each run; /repo is built unmodified",
 'baseline_off_cmd': 'cd /repo && cargo test --workspace --no-fail-fast --offline',
 'source_commits': [],
 'add_only': True}

NOTES = ("Contract-based deductive verification. Each check extracts the real functions a property depends on from /repo's working tree (vx, rewrites listed in the "
 'evidence), splices the contracts of /verif/specs, and lets Verus (unbounded) or Kani/CBMC (complete where loop-free, otherwise labelled bounded and not '
 'counted) discharge every obligation. Exit 2 = undecided (lost anchor / unsupported construct / solver limit), never an alarm.')


# ---- amendments (rounds 4-5): applied to the assembled strings above
def _amend(prop, field, old, new):
    assert old in CLAIMS[prop][field], (prop, field, old[:60])
    CLAIMS[prop][field] = CLAIMS[prop][field].replace(old, new)

_amend('C03', 'text', "a chunk shed from the ingest queue is forgotten by the duplicate cache.",
       "a chunk shed from the ingest queue is forgotten by the duplicate cache; the buffered copies of an applied version are cleared in passes that stop only "
       "when both tables are drained; a completely received version is handed to the applier with a send that waits for room.")
_amend('C04', 'text', "Not decided: the flat_map/collect chain intersecting our missing seqs with the peer's held seqs.",
       "For a version both sides hold partially the requested seq ranges are exactly (our missing ranges) ∩ (what the peer holds), pair by pair (the "
       "flat_map/map/collect chain is desugared mechanically into the two loops it denotes). Structural: no loop of compute_available_needs iterates through a "
       "filtering or truncating adapter. The cutting of a Full need into sub-requests (chunk_range) is checked by Kani with stated bounds, not proved.")
_amend('C04', 'technique', "extracted each run", "extracted each run; structural obligation on the loop headers; Kani (bounded) on chunk_range")
_amend('C05', 'text', "Safety guards only:",
       "send_change_chunks sends consecutive ranges from the requested start to the requested end carrying exactly the selected rows (against the chunker's "
       "contract, itself proved here as well); structural: every chunker is built with the two bounds its rows were selected with (`seq BETWEEN` over both), the "
       "stored ranges of a buffered version are read row by row from their own columns, a failed row ends the answer for its range, all queries of one need "
       "run on one read transaction and are scoped to one actor. Otherwise safety guards only:")
_amend('C07', 'text', "Rollback on failure and",
       "A changeset attributed to the node itself is dropped by the ingest loop unconditionally, and after a restart the node's own head is read from "
       "cr-sqlite's per-site version counter (so its own versions stay gap-free and the next one is previous + 1). Rollback on failure and")
_amend('C07', 'note', "tiling of the chunker (proved under C08)", "tiling of the chunker (proved in unit c07_chunker / C08)")
_amend('C08', 'text', "chunk_range's union = request is checked by Kani with stated bounds.",
       "The stored ranges of a buffered version are read row by row (no aggregate) from their own columns, and a failed row ends the answer. chunk_range's "
       "union = request is checked by Kani with stated bounds.")
_amend('C10', 'text', "Liveness (applied after finitely many offers) and JoinSet/back-pressure timing are not decided.",
       "Of the liveness clause only the hand-over is decided: a version whose last chunk has just been buffered (or is found fully buffered at start-up) is given "
       "to the applier with a send that waits for room, never try_send; what a restart reloads as held seqs of a buffered version is what was recorded. "
       "Scheduling, JoinSet/back-pressure timing and termination of the applier are not decided.")
_amend('C12', 'text', "Not decided: the snapshot read itself (all_rows in one read transaction) and pruning of the change log below the resume point.",
       "Structural: the snapshot is labelled with MAX(id) of the change log read on the connection its rows came from, inside one transaction; the matcher "
       "publishes the id of every event right after broadcasting it and before it commits (what catch_up_sub compares against); the client's cursor is "
       "assigned only by handle_change / handle_eoq. Not decided: pruning of the change log below the resume point, the matcher's own numbering (+1 per event).")
_amend('C14', 'text', "Channel delivery inside match_changes is not decided.",
       "A stale key only skips itself (the rest of its batch is still examined); the update-feed forwarder ends the stream when its broadcast receiver lagged. "
       "Channel delivery inside match_changes is not decided.")
_amend('C15', 'text', "Not decided: what SQLite/cr-sqlite do with the DDL",
       "Structural: the loop over tables present in both schemas is left early only by an error, so a table that passed the column rules also reaches the index "
       "comparison. Not decided: what SQLite/cr-sqlite do with the DDL")

# ---- round 6: chunk_range proved without a bound (Verus unit c08_chunk_range_v / c04_chunk_range_v); the Kani unit stays as the counterexample source
_amend('C08', 'text', "union = request is checked by Kani with stated bounds.",
       "union = request is proved without a bound (Verus: the real closure body against the block arithmetic, for every range and every chunk size >= 1, under "
       "the std contract of step_by/map) and additionally run through Kani on the real std adapters with stated bounds (counterexample source).")
_amend('C08', 'technique', "Kani (bounded) on chunk_range", "Verus on the real chunk_range (std step_by/map contract assumed) with a bounded Kani twin on the real adapters")
_amend('C08', 'note', "chunk_range (version sub-ranges): see evidence for its status.",
       "chunk_range: generic T instantiated with CrsqlDbVersion; precondition end + chunk_size <= u64::MAX.")
_amend('C04', 'text', "(chunk_range) is checked by Kani with stated bounds, not proved.",
       "(chunk_range) is proved to cover exactly the need for every range and chunk size (Verus, std step_by/map contract assumed), with a bounded Kani twin on the real adapters.")
_amend('C04', 'technique', "Kani (bounded) on chunk_range", "Verus on the real chunk_range with a bounded Kani twin")
_amend('C17', 'technique', CLAIMS['C17']['technique'], CLAIMS['C17']['technique'] + "; Verus contracts on the real sqlite_pool::Config::{read_only, max_size} and the read pool's builder chain in SplitPool::create")
_amend('C17', 'text', CLAIMS['C17']['text'], CLAIMS['C17']['text'] + " The read pool's configuration is proved to open its connections read-only: Config::read_only sets flags with READ_ONLY and without READ_WRITE/CREATE, every later builder method (max_size) changes only the field it names, and the chain in SplitPool::create ends in such flags.")
