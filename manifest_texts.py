HOOKS = {
    "guard": "none",
    "enable": "no source hooks: every verifier input is extracted mechanically from /repo's working tree by /verif/vx on each run; /repo is built unmodified",
    "baseline_off_cmd": "cd /repo && cargo test --workspace --no-fail-fast --offline",
    "source_commits": [],
    "add_only": True,
}

NOTES = ("Contract-based deductive verification. Each check extracts the real functions a property depends on from /repo's working tree "
         "(vx, rewrites listed in the evidence), splices the contracts of /verif/specs, and lets Verus (unbounded) or Kani/CBMC (complete where loop-free, "
         "otherwise labelled bounded and not counted) discharge every obligation. Exit 2 = undecided (lost anchor / unsupported construct / solver limit), never an alarm.")

CLAIMS = {
    "C07": dict(
        technique="structural sequencing/dominance obligations on the real text of make_broadcastable_changes and insert_local_changes (extractor-discharged) + Verus contracts on two fragments of broadcast_changes",
        text="Obligations on the real code that the user statements, the bookkeeping insert and tx.commit() run in this order with `?` propagation, that the bookkeeping snapshot is committed and the broadcast spawned only after the database commit and only when a version was produced, that a request which changed nothing returns no version and books nothing, that the booked version is exactly the peeked next db_version, and (Verus) that the version's rows are chunked from seq 0 to last_seq and each chunk is announced unchanged with its own seq range. Rollback on failure and 'exactly one greater' are SQLite / cr-sqlite behaviour and are assumed.",
        note="Structural obligations are syntactic facts about the real text, reported as such. Assumed: rusqlite transaction semantics, crsql_peek_next_db_version, tiling of the chunker (proved under C08).",
    ),
    "C09": dict(
        technique="Verus contracts on the extracted hand-written speedy decoders (totality stand-ins: panic / reservation / unchecked-UTF-8 obligations) and on the real pack_columns / unpack_columns against a spec of the documented key format; Kani complete proof of the packed-integer width rule; structural obligation that every Vec<E> decoded by speedy itself has an element of positive minimum encoded size; replay searches on the real crate (in a child process for aborts)",
        text="Unbounded proof (any input length) that the four hand-written decoders cannot reach a panic, only reserve memory bounded by a constant or by the bytes left in the reader, and only build Text from validated UTF-8; full-domain proof that num_bytes_needed_i64 is the extension's minimal big-endian width; unbounded proof that unpack_columns is total and returns exactly what the documented packed-key format decodes to (zero-extended integers/lengths) and that pack_columns emits exactly that format for up to 255 columns. A machine-checked lemma composes the two contracts: decoding the encoding of any column list (<= 255 columns) gives back exactly that list. Derived (speedy-derive) codecs, frame-size limits and peak RSS are not decided.",
        note="Assumed: speedy Reader and primitive/derived Readable impls are total and consume their minimum size; generic reader/error types replaced by concrete stand-ins; `bytes` crate as compiled by Kani.",
    ),
    "C15": dict(
        technique="Verus contracts on three anchored fragments of the real apply_schema (table-drop guard, per-table column/primary-key rules, new-column rules with a ghost DDL log) + structural obligations on apply_schema's statement texts and on execute_schema's transaction/commit/assignment order; replay on an in-memory cr-sqlite database",
        text="Proof, for all pairs of current/new schemas (any tables, columns, definitions, key orders), of the additive rules the property lists: apply_schema returns Ok only if every existing table is still present, every existing column of a table present in both is present and unchanged, and the primary key is the same column sequence; a new column that is a primary key, or NOT NULL without a default, is rejected before any DDL, otherwise exactly one ALTER TABLE … ADD COLUMN runs; exactly the indexes the new definition adds are created (never a unique one) and exactly those it no longer lists are dropped, so re-applying the same definition creates and drops nothing. Structural: the only DROP TABLE / RENAME texts sit in a branch closed by the changed-columns guard; execute_schema builds the candidate by inserting into a clone, constrains it before any SQL, applies inside one immediate transaction committed with `?`, and replaces the in-memory schema only after that succeeded, under the schema write lock. Not decided: what SQLite/cr-sqlite do with the DDL (rows kept, rollback), replacement of changed indexes (a closure with `?`), Schema::constrain's own rules; restart is decided only as far as init_schema reads every persisted row (keyed by the unique object name) and execute_schema refreshes those rows wholesale.",
        note="Assumed: the HashSet-difference idiom and filter_map/collect are replaced by set-valued stand-ins keeping the real closure; derived PartialEq on Column is field-wise; names are a stand-in text type; SQL AST payloads opaque.",
    ),
    "C14": dict(
        technique="Verus contracts on anchored fragments of the real update feed (cl-cache filter/buffering of one candidate, cache trim, delete/update parity)",
        text="Proof for all keys/causal lengths/cache contents that a candidate is dropped exactly when a strictly newer causal length of the same key was already let through, that otherwise the pending notification and the cache carry this latest causal length, that trimming keeps the most recent 1000 keys, and that a notification says Delete iff the causal length is even. Monotonicity is conditional on the key not having been evicted from the bounded cache. 'Every changed key is notified' is not decided.",
        note="Assumed: ordered IndexMap stand-ins; TableName opaque; candidates reach batch_candidates; pk unpacking (C09).",
    ),
    "C10": dict(
        technique="Verus contracts on anchored fragments of the real ingest loop (duplicate suppression, drop-oldest eviction with loop invariant, cache insertion), of process_multiple_changes' cleared decision and in-transaction skip, and on the real BookedVersions::contains/contains_all; structural obligation that the loops over offered changesets have no early exit",
        text="Proof for all cache contents / changesets / actor ids that a changeset is suppressed only if the seen-cache covers all of its (actor, version, seq)s, that after a queue-full drop the cache no longer covers the dropped changeset (under its own actor id) and other entries are untouched, that insertion adds exactly the offered seqs, that a version is booked as Cleared only for a complete and empty changeset, that a changeset is passed over inside the write transaction iff the node already holds all of it (contains_all == every version known and every offered seq received) and that this never abandons the changesets queued behind it. Liveness (applied after finitely many offers) and JoinSet/back-pressure timing are not decided.",
        note="Assumed: IndexMap/VecDeque stand-ins; let-chains desugared; queue/cost accounting invariant as precondition; well-ordered seq ranges (an inverted range from a peer would panic rangemap at the cache insertion — noted in DESIGN).",
    ),
    "C03": dict(
        technique="Verus contracts on the extracted real Changeset accessors (is_complete, is_empty, seqs, versions, last_seq); shares PartialVersion::is_complete and insert_partial (union of received seqs) with C02",
        text="Proof for all changesets that is_complete() holds exactly when the seqs are 0..=last_seq (empty variants are complete), i.e. the 'applied iff covered' test on a single changeset; together with C02's partial-completeness and received-seq union contracts. Atomic visibility itself (one SQLite transaction + cr-sqlite merge) and the eventual-apply liveness clause are not decided.",
        note="Change payloads opaque. The gap tests inside process_fully_buffered_changes / startup and the SQL seq-range merge are not yet under contract.",
    ),
    "C05": dict(
        technique="Verus contracts on anchored fragments of the real sync server (process_sync pre-filter, handle_need empties decisions, partial-range clipping), on the whole send_change_chunks against the chunker's proved contract, + the literal SQL overlap clause translated to a spec fn and proved equivalent to interval overlap; structural obligations (one read transaction per need, SQL scoped per actor)",
        text="Proof, for all version ranges and bookkeeping states, that a need is skipped iff the server holds none of the requested versions (so held versions are answered and unknown ones are met with silence), that a version is declared empty iff it is neither buffered nor a known gap, and that the seq range sent for a buffered partial is exactly (buffered row) ∩ (requested range), rows being selected by SQL iff they overlap. Safety guards only: SQL result contents and the chunk tiling across calls (see C08) are not decided here.",
        note="Assumed: `buffered`/`in_gaps` are the EXISTS sub-query results; stand-ins for Option::is_some_and / RangeInclusive::all keep the real closures; SQL fragment translated by vx/sqlpred.py (trusted), SQLite integer semantics mathematical.",
    ),
    "C16": dict(
        technique="Verus contracts on anchored fragments of the real code (uni payload dispatch, the whole per-stream receive loop of the uni handler with a loop invariant, serve_sync prologue, sync-candidate filter closure, broadcast-target filter closure), extracted each run; Kani (bounded) on the member table",
        text="Proof, for all cluster ids / members / payloads, of the four decision sites: a broadcast change is queued iff its payload's cluster id equals ours, and along a whole stream every queued change was carried by a frame declaring our cluster id whatever came before on that stream; serve_sync ends with exactly one Rejection(DifferentCluster) message and no data for a foreign cluster id; sync candidates and broadcast targets are other members of the same cluster. End-to-end 'never applies' beyond these sites is not decided.",
        note="Assumed: `.instrument(..).await` on the one awaited write is replaced by a ghost log; speedy default_on_eof; members map contents. The uni handler's once-per-connection capture of the cluster id is noted, not covered.",
    ),
    "C17": dict(
        technique="Verus contract on the extracted require_authz decision fragment and the query endpoint's read-only guard; structural obligations (extractor-discharged) on router/middleware order and guard dominance",
        text="Proof that the authorisation decision passes iff no token is configured or the header carries exactly the configured token, and rejects with 401 otherwise; structural obligations on the real builder chain that every .route() precedes the single authz layer and that the served app is that router; the non-readonly guard returns a client error before any statement execution and dominates every query call.",
        note="Assumed: axum Router::layer semantics, header parsing, sqlite3_stmt_readonly. Subscription-endpoint SQL (Matcher) is not decided. Structural obligations are syntactic facts about the real text, reported as such.",
    ),
    "C04": dict(
        technique="Verus contracts on anchored fragments of the real SyncStateV1::compute_available_needs (guards, Full-need loop with loop invariants, tail request), extracted each run",
        text="Unbounded proof (any number of ranges, all u64 versions) that the Full requests computed for an actor are exactly our gap ranges intersected with the peer's fully-held set (sound and complete), that nothing is requested for the node's own actor id or a zero head, and that the tail request is (our_head+1 ..= peer_head). The Partial-need branches and the construction of the peer-held set are not under contract.",
        note="Fragments are wrapped as functions over their free variables (self->this, continue->return). Assumed: contracts of RangeInclusiveSet::overlapping, HashMap get/entry().or_default(), cmp::max/min on &newtype. Partial branches (closure chains) are NOT decided.",
    ),
    "C18": dict(
        technique="Verus contracts on the extracted real Members::{remove_member, add_member, add_rtt} / MemberState::{new,is_ring0} (maps of any size; add_member's or_insert_with desugared to the entry match); Kani inductive transition contracts on the extracted add_member / recalculate_rings / ring0 (bounded state, labelled bounded); replay search on the real crate",
        text="remove_member, add_member (an older or equal identity changes nothing; a newer one replaces address, timestamp and cluster id and re-indexes the address; an unknown peer is listed as announced; other members' identities untouched), add_rtt's sample, MemberState::new and is_ring0 are proved unbounded in Verus against the newest-identity statement. recalculate_rings and ring0 are closure/iterator chains Verus cannot take; they (and add_member again, with its address-index invariant) are checked by Kani as inductive steps from an arbitrary state with <=2 members (history length unbounded, state size bounded) and are reported as bounded stand-ins, not as proved.",
        note="Assumed: std BTreeMap contract; Kani unit replaces BTreeMap/CircularBuffer/ActorId/SocketAddr/Timestamp by small stand-ins (listed in evidence). SWIM premise: live peers do not share an address; down notifications carry the identity's own address.",
    ),
    "C12": dict(
        technique="Verus function contracts on the extracted real klukai-client SubscriptionStream::{handle_change,handle_eoq} + verified driver (inductive consecutive-ids statement); Verus contracts with loop invariants on two anchored fragments of the real server-side catch_up_sub (catch-up retry loop, hand-over to the buffered live events); structural obligations on the lag/overflow exits",
        text="Unbounded proof (all u64 ids, all event sequences) of the client-library clause: an event is accepted iff its id is exactly last+1, a gap is reported as MissedChange{expected,got} and leaves the resume point unchanged. Server clause: for every outcome of the change-log reads and every run of buffered live events (the two points where the race with committed changes enters), the ids written to the subscriber during catch-up and hand-over are consecutive from the snapshot/resume point, the catch-up loop only hands over once it has reached the first buffered live event, every newer buffered event is forwarded exactly once, and a lagged broadcast receiver / overflowing buffer stops the stream. Not decided: the snapshot read itself (all_rows in one read transaction) and pruning of the change log below the resume point.",
        note="Field projection of SubscriptionStream to (observed_eoq,last_change_id); SubscriptionError reduced to the one variant the functions build; ids < u64::MAX assumed.",
    ),
    "C02": dict(
        technique="Verus function contracts on the extracted real bookkeeping functions (PartialVersion::is_complete/full_range, ...) against a set-valued view of RangeInclusiveSet",
        text="Unbounded proof (Verus/Z3) over all range sets / all u64 values of the decision kernels the advertised sync state is computed from. Decides the per-function algebra only; that the functions are called inside the right SQLite transaction is not decided.",
        note="Assumed: the contract of rangemap::RangeInclusiveSet (lib/rangeset.vrs; differential depcheck against the real crate is bounded), derived Ord on the u64 newtypes. Not decided: SQLite durability, call sequencing in process_multiple_changes, from_conn row loops.",
    ),
    "C08": dict(
        technique="Verus function contracts + loop invariants on the extracted real ChunkedChanges::{new,next,set_max_buf_size}; verified driver for the whole-run tiling statement",
        text="Unbounded proof (Verus/Z3) that every call of the real ChunkedChanges::next returns a prefix of the remaining rows with a range that starts where the previous ended, "
             "contains its changes, and that a full run tiles [start,last] and concatenates to the input, for every input sequence, every size limit and limit changes between calls.",
        note="Assumed: contracts of Peekable::{next,peek}, Vec::drain(..).collect(), Change::estimated_byte_size (uninterpreted); input rows Ok and strictly increasing in seq within [start,last] (SQL ORDER BY at call sites). "
             "chunk_range (version sub-ranges): see evidence for its status.",
    ),
}

NOT_APPLICABLE = {
    "C01": "multi-node history/schedule liveness whose merge runs inside cr-sqlite; no function contract expresses it (per-node kernels are proved under the claimed properties)",
    "C06": "quantifies over crash points and SQLite WAL durability; not a pre/postcondition of any Rust function",
    "C11": "incremental view maintenance is generated SQL over arbitrary user SELECTs, executed by SQLite; no Verus/Kani contract can state equality with re-evaluation",
    "C13": "depends on process stop points and sub-database contents; only a string guard is contract-shaped",
    "C19": "behaviour is SQL (VACUUM INTO, ordinal rewrites) + file locking across processes",
    "C20": "tokio concurrency (exclusion, priority, deadlock freedom); outside Kani (no threads) and Verus (needs its own sync primitives)",
    # not yet built — removed from this list as each check lands
}
