#!/bin/sh
# seedcheck.sh <worktree> <X.diff> <X_demo.diff> <crate> <test-filter> [extra cargo test args]
# Confirms: (1) demo passes on clean HEAD, (2) demo fails with X applied, (3) crate's existing tests pass with X only.
WT=$1; X=$2; D=$3; CRATE=$4; FILTER=$5; shift 5
cd $WT || exit 2
git checkout -q -- . ; git clean -fdq -e _seed -e target
git apply $D || { echo "demo does not apply"; exit 2; }
cargo test -p $CRATE --offline -j 6 "$@" $FILTER > /tmp/seedlogs/$(basename $WT)_$(basename $X .diff)_clean.log 2>&1; R1=$?
git apply $X || { echo "patch does not apply on top of demo"; exit 2; }
cargo test -p $CRATE --offline -j 6 "$@" $FILTER > /tmp/seedlogs/$(basename $WT)_$(basename $X .diff)_mut.log 2>&1; R2=$?
git checkout -q -- . ; git clean -fdq -e _seed -e target
git apply $X
cargo test -p $CRATE --offline -j 6 --lib > /tmp/seedlogs/$(basename $WT)_$(basename $X .diff)_suite.log 2>&1; R3=$?
git checkout -q -- . ; git clean -fdq -e _seed -e target
echo "RESULT $(basename $WT) $(basename $X): demo_on_clean=$R1 (want 0) demo_with_patch=$R2 (want !=0) crate_suite_with_patch=$R3 (want 0)"
