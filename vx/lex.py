"""Minimal Rust lexer helpers: comment/string masking, delimiter matching, item location.

Nothing here understands Rust semantics.  It is only used to *locate* and *copy* text of the
real source files under /repo so that the verifier input is the code that runs.
"""
import re


class LostAnchor(Exception):
    """An item / anchor named by a unit description is not present in the working tree."""


class Unsupported(Exception):
    """The selected text contains something the extractor refuses to pass to a verifier."""


def mask(src: str) -> str:
    """Return a string of the same length as `src` in which the contents of comments, string
    literals and char literals are replaced by spaces (newlines kept).  Delimiters of strings are
    kept as `"`; comments vanish completely."""
    out = list(src)
    n = len(src)
    i = 0

    def blank(a, b):
        for k in range(a, b):
            if out[k] != "\n":
                out[k] = " "

    while i < n:
        c = src[i]
        if c == "/" and i + 1 < n and src[i + 1] == "/":
            j = src.find("\n", i)
            if j < 0:
                j = n
            blank(i, j)
            i = j
        elif c == "/" and i + 1 < n and src[i + 1] == "*":
            depth = 1
            j = i + 2
            while j < n and depth > 0:
                if src.startswith("/*", j):
                    depth += 1
                    j += 2
                elif src.startswith("*/", j):
                    depth -= 1
                    j += 2
                else:
                    j += 1
            blank(i, j)
            i = j
        elif c == '"' or (c in "br" and _is_str_prefix(src, i)):
            # string, byte string, raw string
            j = i
            while src[j] in "br":
                j += 1
            hashes = 0
            raw = "r" in src[i:j]
            while src[j] == "#":
                hashes += 1
                j += 1
            assert src[j] == '"', (src[i : i + 20])
            j += 1
            start = j
            if raw:
                term = '"' + "#" * hashes
                k = src.find(term, j)
                if k < 0:
                    k = n
                blank(start, k)
                i = k + len(term)
            else:
                while j < n and src[j] != '"':
                    if src[j] == "\\":
                        j += 2
                    else:
                        j += 1
                blank(start, j)
                i = j + 1
        elif c == "'":
            # char literal or lifetime
            m = re.compile(r"'(\\(x[0-9a-fA-F]{2}|u\{[0-9a-fA-F_]+\}|.)|[^\\'\n])'").match(src, i)
            if m:
                blank(i + 1, m.end() - 1)
                i = m.end()
            else:
                i += 1
        else:
            i += 1
    return "".join(out)


def _is_str_prefix(src, i):
    # b"..", r"..", br"..", r#".."#, b'x' is handled as char by the ' branch (b stays code)
    if i > 0 and (src[i - 1].isalnum() or src[i - 1] == "_"):
        return False
    m = re.compile(r'(b?r#*"|b")').match(src, i)
    return bool(m)


OPEN = {"(": ")", "[": "]", "{": "}"}
CLOSE = {v: k for k, v in OPEN.items()}


def match_delim(msk: str, i: int) -> int:
    """msk[i] is an opening delimiter; return index of its matching closer."""
    assert msk[i] in OPEN, msk[i : i + 10]
    stack = [msk[i]]
    j = i + 1
    n = len(msk)
    while j < n:
        c = msk[j]
        if c in OPEN:
            stack.append(c)
        elif c in CLOSE:
            if not stack or stack[-1] != CLOSE[c]:
                raise Unsupported("unbalanced delimiters near offset %d" % j)
            stack.pop()
            if not stack:
                return j
        j += 1
    raise Unsupported("unterminated delimiter at offset %d" % i)


def find_body_open(msk: str, i: int, end: int) -> int:
    """From offset i (just after `fn name` / `impl`), find the `{` that opens the body, skipping
    (), [] and <> is not needed because `{` cannot occur inside them in signatures we accept.
    Returns -1 if a `;` comes first (declaration without body)."""
    depth = 0
    j = i
    while j < end:
        c = msk[j]
        if c in "([":
            j = match_delim(msk, j)
        elif c == "{":
            return j
        elif c == ";":
            return -1
        j += 1
    return -1


def norm_ws(s: str) -> str:
    return re.sub(r"\s+", " ", s).strip()


def find_impls(src: str, msk: str, header_re: str, lo=0, hi=None):
    """Yield (hdr_start, open, close) for each `impl … {` whose whitespace-normalised header
    matches header_re."""
    hi = len(src) if hi is None else hi
    for m in re.finditer(r"\bimpl\b", msk[lo:hi]):
        s = lo + m.start()
        o = find_body_open(msk, s, hi)
        if o < 0:
            continue
        hdr = norm_ws(msk[s:o])
        if re.search(header_re, hdr):
            yield (s, o, match_delim(msk, o))


def find_fn(src: str, msk: str, name: str, lo=0, hi=None, nth=1):
    """Return (sig_start, open, close) of the nth `fn name` with a body in [lo,hi)."""
    hi = len(src) if hi is None else hi
    k = 0
    for m in re.finditer(r"\bfn\s+%s\b" % re.escape(name), msk[lo:hi]):
        s = lo + m.start()
        o = find_body_open(msk, s + len(m.group(0)), hi)
        if o < 0:
            continue
        k += 1
        if k == nth:
            # extend sig_start backwards over qualifiers (pub, async, const, unsafe, pub(crate))
            ls = src.rfind("\n", 0, s) + 1
            prefix = msk[ls:s]
            if re.fullmatch(r"\s*((pub(\([^)]*\))?|async|const|unsafe|default)\s+)*", prefix):
                s0 = ls + (len(prefix) - len(prefix.lstrip()))
            else:
                s0 = s
            return (s0, o, match_delim(msk, o))
    raise LostAnchor("fn %s (occurrence %d) not found" % (name, nth))


def find_typedef(src: str, msk: str, kind: str, name: str):
    """Locate `struct|enum Name … { … }` or tuple struct `struct Name(...);`.  Returns
    (start_including_attrs, end_exclusive)."""
    m = re.search(r"\b%s\s+%s\b" % (kind, re.escape(name)), msk)
    if not m:
        raise LostAnchor("%s %s not found" % (kind, name))
    s = m.start()
    # body: first of `{` or `(`…`;`
    j = m.end()
    n = len(msk)
    while j < n and msk[j] not in "{(;":
        if msk[j] == "<":
            # skip generics
            d = 1
            j += 1
            while j < n and d:
                if msk[j] == "<":
                    d += 1
                elif msk[j] == ">" and msk[j - 1] != "-":
                    d -= 1
                j += 1
            continue
        j += 1
    if msk[j] == "{":
        e = match_delim(msk, j) + 1
    elif msk[j] == "(":
        e = match_delim(msk, j) + 1
        while msk[e] != ";":
            e += 1
        e += 1
    else:
        e = j + 1
    # include preceding attributes (possibly multi-line) and visibility
    start = src.rfind("\n", 0, s) + 1
    while True:
        k = start - 1
        while k >= 0 and msk[k].isspace():
            k -= 1
        if k >= 0 and msk[k] == "]":
            depth = 0
            j = k
            while j >= 0:
                if msk[j] == "]":
                    depth += 1
                elif msk[j] == "[":
                    depth -= 1
                    if depth == 0:
                        break
                j -= 1
            if j > 0 and msk[j - 1] == "#":
                start = src.rfind("\n", 0, j - 1) + 1
                continue
        break
    return (start, e)


def iter_string_literals(src: str):
    """Yield (start_offset, text) for every string literal (normal, byte, raw) outside comments."""
    n = len(src)
    i = 0
    while i < n:
        c = src[i]
        if c == "/" and src.startswith("//", i):
            j = src.find("\n", i)
            i = n if j < 0 else j
        elif c == "/" and src.startswith("/*", i):
            depth = 1
            j = i + 2
            while j < n and depth > 0:
                if src.startswith("/*", j):
                    depth += 1
                    j += 2
                elif src.startswith("*/", j):
                    depth -= 1
                    j += 2
                else:
                    j += 1
            i = j
        elif c == '"' or (c in "br" and _is_str_prefix(src, i)):
            j = i
            while src[j] in "br":
                j += 1
            hashes = 0
            raw = "r" in src[i:j]
            while src[j] == "#":
                hashes += 1
                j += 1
            j += 1
            start = j
            if raw:
                term = '"' + "#" * hashes
                k = src.find(term, j)
                k = n if k < 0 else k
                yield (start, src[start:k])
                i = k + len(term)
            else:
                while j < n and src[j] != '"':
                    j += 2 if src[j] == "\\" else 1
                yield (start, src[start:j])
                i = j + 1
        elif c == "'":
            m = re.compile(r"'(\\(x[0-9a-fA-F]{2}|u\{[0-9a-fA-F_]+\}|.)|[^\\'\n])'").match(src, i)
            i = m.end() if m else i + 1
        else:
            i += 1
