"""vx: mechanical extraction of real function text from /repo into verifier input.

A *template* (specs/*.vrs, kani/*/*.rs.tmpl) is ordinary verifier source (stand-ins, spec functions,
contracts, lemmas) containing `//@extract … //@end` blocks.  Each block is replaced, on every run, by
text copied from the working tree of /repo; the only changes applied to the copied text are the
rewrites listed in the block, all of which are recorded in the extraction report.

Directive grammar (one directive per line, inside an extract block every line starts with `//@`):

  //@extract body|item|type|fragment file=<repo-relative path> [impl=/regex/] [fn=<name>] [nth=<k>]
             [struct=<Name>|enum=<Name>] [begin=/regex/ end=/regex/ [end_block=1]]
  //@ expect_sig <whitespace-normalised signature text>      (body mode: checked, else LostAnchor)
  //@ drop_macros [name …]                                    (R1; default list below)
  //@ drop_stmt /regex/                                       (R1: delete the statement matched)
  //@ sub /regex/ => replacement                              (unit-specific rewrite, counted)
  //@ subopt /regex/ => replacement                           (same, but zero matches is fine)
  //@ splice loop <k>            + following `//@ | text` lines   (loop spec before the loop `{`)
  //@ splice before|after|after_stmt /regex/ [nth] + `//@ | text` lines
  //@ splice fn_head                 + lines  (body mode only: ghost text right after the `{`)
  //@end
"""
import re
import hashlib
from .lex import mask, match_delim, find_fn, find_impls, find_typedef, norm_ws, LostAnchor, Unsupported

DEFAULT_DROP = [
    "trace", "debug", "info", "warn", "error", "counter", "histogram", "gauge",
    "assert_sometimes", "assert_always", "assert_unreachable", "debug_assert", "debug_assert_eq",
]

REPO = "/repo"


class SrcText:
    """Text with a per-character origin: >0 = line in the repo file, <0 = -(line in template)."""

    def __init__(self, s="", o=None):
        self.s = s
        self.o = o if o is not None else [0] * len(s)

    @staticmethod
    def from_file_slice(src, a, b):
        # origin line per char
        line = src.count("\n", 0, a) + 1
        o = []
        for ch in src[a:b]:
            o.append(line)
            if ch == "\n":
                line += 1
        return SrcText(src[a:b], o)

    def delete(self, a, b):
        self.s = self.s[:a] + self.s[b:]
        del self.o[a:b]

    def insert(self, at, text, origin):
        self.s = self.s[:at] + text + self.s[at:]
        self.o[at:at] = [origin] * len(text)

    def replace(self, a, b, text, origin=None):
        org = origin if origin is not None else (self.o[a] if a < len(self.o) else 0)
        self.delete(a, b)
        self.insert(a, text, org)


def parse_args(rest):
    """key=value pairs; value is /regex/ (with \\/ escape), "quoted" or a bare word."""
    args = {}
    pos = []
    i = 0
    n = len(rest)
    while i < n:
        if rest[i].isspace():
            i += 1
            continue
        m = re.compile(r"(\w+)=").match(rest, i)
        key = None
        if m:
            key = m.group(1)
            i = m.end()
        if i < n and rest[i] == "/":
            j = i + 1
            buf = []
            while j < n and rest[j] != "/":
                if rest[j] == "\\" and j + 1 < n and rest[j + 1] == "/":
                    buf.append("/")
                    j += 2
                else:
                    buf.append(rest[j])
                    j += 1
            val = "".join(buf)
            i = j + 1
        elif i < n and rest[i] == '"':
            j = rest.index('"', i + 1)
            val = rest[i + 1 : j]
            i = j + 1
        else:
            j = i
            while j < n and not rest[j].isspace():
                j += 1
            val = rest[i:j]
            i = j
        if key:
            args[key] = val
        else:
            pos.append(val)
    return args, pos


def _stmt_end(msk, i):
    """index just after the `;` that terminates the statement containing offset i (depth-aware)."""
    j = i
    n = len(msk)
    while j < n:
        c = msk[j]
        if c in "([{":
            j = match_delim(msk, j)
        elif c == ";":
            return j + 1
        elif c in ")]}":
            return j  # statement was the tail expression
        j += 1
    return n


def _line_start(s, i):
    return s.rfind("\n", 0, i) + 1


class Extraction:
    def __init__(self, header_args, header_pos, tmpl_line):
        self.mode = header_pos[0]
        self.args = header_args
        self.ops = []  # (kind, payload, tmpl_line)
        self.tmpl_line = tmpl_line


def _locate(ex: Extraction, src, msk):
    a = ex.args
    lo, hi = 0, len(src)
    if "impl" in a:
        cands = list(find_impls(src, msk, a["impl"]))
        if not cands:
            raise LostAnchor("impl /%s/ not found in %s" % (a["impl"], a["file"]))
        # choose the impl that contains the fn (if fn given)
        if "fn" in a:
            for (s, o, c) in cands:
                try:
                    r = find_fn(src, msk, a["fn"], o + 1, c, int(a.get("nth", 1)))
                    return r
                except LostAnchor:
                    continue
            raise LostAnchor("fn %s not found in impl /%s/ of %s" % (a["fn"], a["impl"], a["file"]))
        s, o, c = cands[int(a.get("nth", 1)) - 1]
        return (s, o, c)
    if "fn" in a:
        return find_fn(src, msk, a["fn"], lo, hi, int(a.get("nth", 1)))
    raise LostAnchor("nothing to locate: %r" % a)


def run_extraction(ex: Extraction, report):
    path = "%s/%s" % (REPO, ex.args["file"])
    src = open(path).read()
    msk = mask(src)
    rec = {"file": ex.args["file"], "mode": ex.mode, "rewrites": []}
    if ex.mode == "type":
        kind = "struct" if "struct" in ex.args else "enum"
        name = ex.args[kind]
        s, e = find_typedef(src, msk, kind, name)
        t = SrcText.from_file_slice(src, s, e)
        rec["item"] = "%s %s" % (kind, name)
        rec["lines"] = [src.count("\n", 0, s) + 1, src.count("\n", 0, e) + 1]
        if "fields" in ex.args:
            keep = ex.args["fields"].split(",")
            mk = mask(t.s)
            ob = mk.index("{")
            cb = match_delim(mk, ob)
            # split fields at depth-0 commas
            segs = []
            j = ob + 1
            st0 = j
            while j < cb:
                if mk[j] in "([{":
                    j = match_delim(mk, j)
                elif mk[j] == "<":
                    pass
                elif mk[j] == "," :
                    # commas inside <...> generics: track angle depth cheaply
                    seg = mk[st0:j]
                    if seg.count("<") == seg.count(">") - seg.count("->"):
                        segs.append((st0, j + 1))
                        st0 = j + 1
                j += 1
            if mk[st0:cb].strip():
                segs.append((st0, cb))
            dropped = []
            for (a0, b0) in reversed(segs):
                mm = re.search(r"(\w+)\s*:", mk[a0:b0])
                fname = mm.group(1) if mm else None
                if fname not in keep:
                    dropped.append(fname)
                    t.delete(a0, b0)
            missing = [k for k in keep if not re.search(r"\b%s\s*:" % re.escape(k), mask(t.s))]
            if missing:
                raise LostAnchor("fields %s not found in %s %s" % (missing, kind, name))
            rec["rewrites"].append({"rule": "R5 field projection", "kept": keep, "dropped": list(reversed(dropped))})
    elif ex.mode == "sql":
        # boolean fragment of a literal SQL string inside a function: text strictly between `from` and `to`
        from . import sqlpred
        s0, o0, c0 = _locate(ex, src, msk)
        seg = src[o0:c0]
        mf = None
        for k, m in enumerate(re.finditer(ex.args["from"], seg)):
            if k + 1 == int(ex.args.get("from_nth", 1)):
                mf = m
                break
        if not mf:
            raise LostAnchor("sql from=/%s/ not found in fn %s" % (ex.args["from"], ex.args.get("fn")))
        mt = re.compile(ex.args["to"]).search(seg, mf.end())
        if not mt:
            raise LostAnchor("sql to=/%s/ not found in fn %s" % (ex.args["to"], ex.args.get("fn")))
        a0, b0 = o0 + mf.end(), o0 + mt.start()
        pred = src[a0:b0]
        params = ex.args["params"].split(",") if "params" in ex.args else None
        text, vars_ = sqlpred.translate(pred, ex.args["name"], params)
        line = src.count("\n", 0, a0) + 1
        t = SrcText(text, [line] * len(text))
        rec["item"] = "SQL predicate in fn %s" % ex.args.get("fn")
        rec["lines"] = [line, src.count("\n", 0, b0) + 1]
        rec["sql_text"] = " ".join(pred.split())
        rec["rewrites"].append({"rule": "SQL boolean fragment -> Verus spec fn over int (vx/sqlpred.py)", "params": vars_})
    elif ex.mode == "const":
        m = re.search(r"\b(pub\s+)?(const|static)\s+%s\b" % re.escape(ex.args["name"]), msk)
        if not m:
            raise LostAnchor("const %s not found in %s" % (ex.args["name"], ex.args["file"]))
        e = _stmt_end(msk, m.start())
        t = SrcText.from_file_slice(src, m.start(), e)
        rec["item"] = "const %s" % ex.args["name"]
        rec["lines"] = [src.count("\n", 0, m.start()) + 1, src.count("\n", 0, e) + 1]
    elif ex.mode in ("body", "item"):
        s, o, c = _locate(ex, src, msk)
        rec["item"] = (ex.args.get("impl", "") + "::" if "impl" in ex.args else "") + "fn " + ex.args.get("fn", "?")
        rec["lines"] = [src.count("\n", 0, s) + 1, src.count("\n", 0, c) + 1]
        sig = norm_ws(src[s:o])
        rec["signature"] = sig
        for kind, payload, tl in ex.ops:
            if kind == "expect_sig" and norm_ws(payload) != sig:
                raise LostAnchor("signature of %s changed: expected `%s`, found `%s`" % (rec["item"], norm_ws(payload), sig))
        if ex.mode == "body":
            t = SrcText.from_file_slice(src, o, c + 1)
        else:
            t = SrcText.from_file_slice(src, s, c + 1)
    elif ex.mode == "fragment":
        s, o, c = _locate(ex, src, msk)
        body_m = msk[o:c]
        mb = _nth_match(ex.args["begin"], src[o:c], body_m, int(ex.args.get("begin_nth", 1)))
        if not mb:
            raise LostAnchor("fragment begin /%s/ not found in fn %s" % (ex.args["begin"], ex.args.get("fn")))
        fs = _line_start(src, o + mb.start())
        me = None
        seg = src[o:c]
        if ex.args.get("to_block_end"):
            # from the begin match to the end of the block that encloses it (e.g. "the rest of the loop body"), whatever the order of the
            # statements in between
            depth, k = 0, o + mb.start()
            while k > o:
                k -= 1
                if msk[k] == "}":
                    depth += 1
                elif msk[k] == "{":
                    if depth == 0:
                        break
                    depth -= 1
            fe = match_delim(msk, k)
            t = SrcText.from_file_slice(src, fs, fe)
            rec["item"] = "fragment of fn %s" % ex.args.get("fn")
            rec["lines"] = [src.count("\n", 0, fs) + 1, src.count("\n", 0, fe) + 1]
            rec["fn"] = ex.args.get("fn")
            rec["impl"] = ex.args.get("impl")
            rec["nth"] = int(ex.args.get("nth", 1))
            rec["span"] = [fs, fe]
            seg = None
        for m in (re.finditer(ex.args["end"], seg) if seg is not None else ()):
            a0 = m.start()
            if a0 < mb.start():
                continue
            if seg[a0] != body_m[a0] and not seg[a0].isspace():
                continue  # inside comment/string
            me = m
            break
        if seg is None:
            pass
        elif not me:
            raise LostAnchor("fragment end /%s/ not found in fn %s" % (ex.args["end"], ex.args.get("fn")))
        else:
          fe = o + me.end()
        if seg is None:
            pass
        elif ex.args.get("end_block"):
            # the block opened by the last `{` inside the end match (else: the first `{` after it)
            ms, me_ = o + me.start(), o + me.end()
            k = msk.rfind("{", ms, me_)
            if k < 0:
                k = me_
                while msk[k] != "{":
                    k += 1
            fe = match_delim(msk, k) + 1
            if ex.args.get("inner"):
                # only the statements inside that block (loop/if header dropped)
                fs = k + 1
                fe = fe - 1
        elif ex.args.get("end_stmt"):
            fe = _stmt_end(msk, o + me.start())
        if seg is not None:
            t = SrcText.from_file_slice(src, fs, fe)
        rec["item"] = "fragment of fn %s" % ex.args.get("fn")
        rec["lines"] = [src.count("\n", 0, fs) + 1, src.count("\n", 0, fe) + 1]
        rec["fn"] = ex.args.get("fn")
        rec["impl"] = ex.args.get("impl")
        rec["nth"] = int(ex.args.get("nth", 1))
        rec["span"] = [fs, fe]
    else:
        raise Unsupported("unknown extraction mode %s" % ex.mode)

    rec["sha256_source_text"] = hashlib.sha256(t.s.encode()).hexdigest()[:16]

    # ---- rewrites
    for kind, payload, tl in ex.ops:
        if kind == "drop_macros":
            names = payload.split() or DEFAULT_DROP
            n = _drop_macros(t, names)
            rec["rewrites"].append({"rule": "R1 drop observability macros", "names": names, "count": n})
        elif kind == "drop_stmt":
            a, _ = parse_args(payload)
            rx = _[0]
            n = 0
            while True:
                mk = mask(t.s)
                m = _nth_match(rx, t.s, mk, 1)
                if not m:
                    break
                ls = _line_start(t.s, m.start())
                e = _stmt_end(mk, m.start())
                t.delete(ls, e)
                n += 1
            rec["rewrites"].append({"rule": "R1 drop statement", "regex": rx, "count": n})
        elif kind == "name_anonymous_loops":
            # `for _ in E {` -> `for <prefix><k> in E {`, k = 1, 2, … in textual order (an unnamed counter cannot be mentioned by an invariant)
            prefix = payload.strip() or "i"
            n = 0
            pos = 0
            while True:
                mk = mask(t.s)
                m = re.compile(r"\bfor\s+_\s+in\b").search(mk, pos)
                if not m:
                    break
                n += 1
                new = "for %s%d in" % (prefix, n)
                t.replace(m.start(), m.end(), new)
                pos = m.start() + len(new)
            rec["rewrites"].append({"rule": "anonymous loop counters named: k-th `for _ in E` -> `for %sk in E`" % prefix, "count": n})
        elif kind == "desugar_let_chains":
            n = _desugar_let_chains(t)
            rec["rewrites"].append({"rule": "let-chain desugaring: `if let P = E && C {B}` -> `if let P = E { if C {B} }` (only without else)", "count": n})
        elif kind == "desugar_or_insert_with":
            n = _desugar_or_insert_with(t, payload.strip())
            rec["rewrites"].append({"rule": "Entry::or_insert_with desugaring: `E.or_insert_with(|| B)` -> `(match E { %s::Occupied(o) => o.into_mut(), %s::Vacant(v) => v.insert(B) })` (B runs only when the entry is vacant, as in std)" % (payload.strip(), payload.strip()), "count": n})
        elif kind == "desugar_option_closures":
            n = _desugar_option_closures(t)
            rec["rewrites"].append({"rule": "Option combinator desugaring: `E.is_some_and(|P| B)` -> `(match E { Some(P) => { B }, None => false })`, `E.is_none_or(|P| B)` -> `(match E { Some(P) => { B }, None => true })`, `E.map(|P| B).unwrap_or(D)` -> `(match E { Some(P) => { B }, None => D })`, `E.and_then(|P| B)` -> `(match E { Some(P) => { B }, None => None })`, `C.then(|| X)` -> `(if C { Some(X) } else { None })`", "count": n})
        elif kind in ("sub", "subopt"):
            lhs, rhs = payload.split("=>", 1)
            _, p = parse_args(lhs.strip())
            rx = p[0]
            repl = rhs.strip()
            if repl.startswith('"') and repl.endswith('"'):
                repl = repl[1:-1]
            n = 0
            pos = 0
            while True:
                m = re.compile(rx).search(t.s, pos)
                if not m:
                    break
                new = m.expand(repl)
                t.replace(m.start(), m.end(), new)
                pos = m.start() + len(new)
                n += 1
            if n == 0 and kind == "sub":
                raise LostAnchor("rewrite /%s/ matched nothing in %s" % (rx, rec["item"]))
            rec["rewrites"].append({"rule": "sub", "regex": rx, "replacement": repl, "count": n})

    # ---- splices (spec text only)
    for kind, payload, tl in ex.ops:
        if kind != "splice":
            continue
        where, text = payload
        _check_spec_only(text, tl)
        args, pos = parse_args(where)
        mk = mask(t.s)
        if pos[0] == "loop":
            k = int(pos[1])
            ms = [m for m in re.finditer(r"\b(loop|while|for)\b", mk) if t.o[m.start()] > 0]
            if len(ms) < k and args.get("optional"):
                rec["rewrites"].append({"rule": "optional splice skipped (loop absent)", "loop": k})
                continue
            if len(ms) < k:
                raise LostAnchor("loop #%d not found in %s" % (k, rec["item"]))
            m = ms[k - 1]
            j = m.end()
            while mk[j] != "{":
                if mk[j] in "([":
                    j = match_delim(mk, j)
                j += 1
            t.insert(j, "\n" + text + "\n", -tl)
        elif pos[0] == "fn_head":
            assert t.s[0] == "{"
            t.insert(1, "\n" + text + "\n", -tl)
        elif pos[0] in ("before", "after", "after_stmt"):
            rx = pos[1]
            nth = int(pos[2]) if len(pos) > 2 else 1
            m = _nth_match(rx, t.s, mk, nth, t.o)
            if not m and args.get("optional"):
                # proof text for a statement that the current code does not have: nothing to attach it to (the proof then has to do without)
                rec["rewrites"].append({"rule": "optional splice skipped (anchor absent)", "anchor": rx})
                continue
            if not m:
                raise LostAnchor("splice anchor /%s/ #%d not found in %s" % (rx, nth, rec["item"]))
            if pos[0] == "before":
                at = _line_start(t.s, m.start())
            elif pos[0] == "after":
                at = m.end()
            else:
                at = _stmt_end(mk, m.start())
                if at == 0 or mk[at - 1] != ";":
                    # unit-typed tail expression: terminate it so that ghost text can follow
                    text = ";\n" + text
            t.insert(at, "\n" + text + "\n", -tl)
        else:
            raise Unsupported("bad splice position %s" % where)
    report.append(rec)
    return t


def _nth_match(rx, s, mk, nth, org=None):
    """nth regex match in s whose first character is code (not inside comment/string) and, when
    an origin array is given, is text copied from the repository (not spliced overlay text)."""
    k = 0
    for m in re.finditer(rx, s):
        a = m.start()
        if org is not None and a < len(org) and org[a] <= 0:
            continue
        # skip matches that start inside comments/strings (masked out)
        if a < len(mk) and s[a] != mk[a] and not s[a].isspace():
            continue
        k += 1
        if k == nth:
            return m
    return None


def _drop_macros(t: SrcText, names):
    n = 0
    rx = re.compile(r"\b(%s)!\s*([\(\[\{])" % "|".join(map(re.escape, names)))
    pos = 0
    while True:
        mk = mask(t.s)
        m = rx.search(mk, pos)
        if not m:
            return n
        a = m.start()
        # qualified path e.g. tracing::trace!
        while a >= 2 and mk[a - 2 : a] == "::":
            b = a - 2
            while b > 0 and (mk[b - 1].isalnum() or mk[b - 1] == "_"):
                b -= 1
            a = b
        close = match_delim(mk, m.end() - 1)
        e = close + 1
        j = e
        while j < len(mk) and mk[j] in " \t":
            j += 1
        # previous significant char
        p = a - 1
        while p >= 0 and mk[p].isspace():
            p -= 1
        prev = mk[p] if p >= 0 else "{"
        # trailing method chain on the macro result, e.g. counter!(..).increment(n);
        jj = j
        while True:
            mm = re.compile(r"\s*\.\s*\w+\s*\(").match(mk, jj)
            if not mm:
                break
            jj = match_delim(mk, mm.end() - 1) + 1
        while jj < len(mk) and mk[jj] in " \t":
            jj += 1
        if jj < len(mk) and mk[jj] == ";":
            j = jj
        if j < len(mk) and mk[j] == ";" and prev in "{};":
            ls = _line_start(t.s, a)
            if t.s[ls:a].strip() == "":
                a = ls
            e = j + 1
            if e < len(t.s) and t.s[e] == "\n":
                e += 1
            t.delete(a, e)
            pos = a
        else:
            t.replace(a, e, "()")
            pos = a + 2
        n += 1


def _desugar_let_chains(t: SrcText):
    """Rewrite `if let PAT = EXPR && REST { BODY }` (no else) into nested ifs.  Verus has no let-chains."""
    n = 0
    pos = 0
    while True:
        mk = mask(t.s)
        m = re.compile(r"\bif\s+let\b").search(mk, pos)
        if not m:
            return n
        # scan condition to the `{` that opens the block, tracking top-level `&&`
        j = m.end()
        amp = None
        while j < len(mk):
            c = mk[j]
            if c in "([":
                j = match_delim(mk, j)
            elif c == "{":
                break
            elif mk.startswith("&&", j) and amp is None:
                amp = j
            elif mk.startswith("||", j) and amp is None:
                pass
            j += 1
        if j >= len(mk):
            return n
        if amp is None:
            pos = m.end()
            continue
        ob = j
        cb = match_delim(mk, ob)
        after = mk[cb + 1:cb + 40]
        if re.match(r"\s*else\b", after):
            raise Unsupported("let-chain with an else branch cannot be desugared mechanically")
        rest = t.s[amp + 2:ob].strip()
        # build: if let P = E { if REST { BODY } }
        t.insert(cb + 1, " }", t.o[cb])
        t.replace(amp, ob, "{ if " + rest + " ", t.o[amp])
        n += 1
        pos = m.end()


def _receiver_start(mk, dot):
    """Start offset of the postfix-expression that ends just before the `.` at `dot` (method-call receiver)."""
    i = dot
    while True:
        j = i - 1
        while j >= 0 and mk[j].isspace():
            j -= 1
        if j < 0:
            raise Unsupported("cannot find receiver")
        c = mk[j]
        if c in ")]":
            depth = 0
            k = j
            while k >= 0:
                if mk[k] in ")]}":
                    depth += 1
                elif mk[k] in "([{":
                    depth -= 1
                    if depth == 0:
                        break
                k -= 1
            if k < 0:
                raise Unsupported("unbalanced receiver")
            i = k
            # a call `name(..)` / index `name[..]` / turbofish: keep going left over the callee
            j2 = i - 1
            if j2 >= 0 and (mk[j2].isalnum() or mk[j2] in "_>"):
                continue_left = True
            else:
                continue_left = False
            if not continue_left:
                # parenthesised expression is the whole receiver unless preceded by `.`/`::`
                pass
            else:
                # consume identifier
                k = j2
                while k >= 0 and (mk[k].isalnum() or mk[k] == "_"):
                    k -= 1
                i = k + 1
        elif c == "?":
            i = j
            continue
        elif c.isalnum() or c == "_":
            k = j
            while k >= 0 and (mk[k].isalnum() or mk[k] == "_"):
                k -= 1
            i = k + 1
        else:
            raise Unsupported("receiver shape not supported near %r" % mk[max(0, j - 20):j + 1])
        # is there a `.` or `::` further left (method chain / path)?
        j = i - 1
        while j >= 0 and mk[j].isspace():
            j -= 1
        if j >= 0 and mk[j] == ".":
            if j >= 1 and mk[j - 1] == ".":
                return i  # range operator `..`
            i = j
            continue
        if j >= 1 and mk[j - 1:j + 1] == "::":
            i = j - 1
            continue
        return i


def _desugar_or_insert_with(t: SrcText, enum_path):
    n = 0
    while True:
        mk = mask(t.s)
        m = re.compile(r"\.\s*or_insert_with\s*\(").search(mk)
        if not m:
            return n
        op = m.end() - 1
        cp = match_delim(mk, op)
        inner = t.s[op + 1:cp]
        mi = re.match(r"\s*\|\s*\|\s*", inner)
        if not mi:
            raise Unsupported("or_insert_with with a non-closure argument")
        body = inner[mi.end():].rstrip().rstrip(",").rstrip()
        rs = _receiver_start(mk, m.start())
        recv = t.s[rs:m.start()]
        t.replace(rs, cp + 1, "(match %s { %s::Occupied(o) => o.into_mut(), %s::Vacant(v) => v.insert(%s) })" % (recv, enum_path, enum_path, body), t.o[m.start()])
        n += 1


def _desugar_option_closures(t: SrcText):
    """`RECV.is_some_and(|PAT| BODY)` -> `(match RECV { Some(PAT) => { BODY }, None => false })` (and is_none_or -> true)."""
    n = 0
    skip_from = 0
    while True:
        mk = mask(t.s)
        m = re.compile(r"\.\s*(is_some_and|is_none_or|map|and_then|then)\s*\(").search(mk, skip_from)
        if not m:
            return n
        op = m.end() - 1
        cp = match_delim(mk, op)
        inner = t.s[op + 1:cp]
        if m.group(1) == "then":
            # `COND.then(|| X)` (bool::then) -> `(if COND { Some(X) } else { None })`
            mt = re.match(r"\s*\|\s*\|\s*", inner)
            if not mt:
                skip_from = m.end()
                continue
            rs = _receiver_start(mk, m.start())
            t.replace(rs, cp + 1, "(if %s { Some(%s) } else { None })" % (t.s[rs:m.start()], inner[mt.end():].rstrip().rstrip(",").rstrip()), t.o[m.start()])
            n += 1
            continue
        mi = re.match(r"\s*\|([^|:]*)\|\s*", inner)
        if not mi and m.group(1) in ("map", "and_then"):
            skip_from = m.end()
            continue
        if not mi:
            raise Unsupported("Option combinator with a non-closure or typed-parameter argument: %r" % inner[:40])
        pat = mi.group(1).strip()
        body = inner[mi.end():].rstrip().rstrip(",").rstrip()
        rs = _receiver_start(mk, m.start())
        recv = t.s[rs:m.start()]
        dflt = {"is_some_and": "false", "is_none_or": "true", "and_then": "None"}.get(m.group(1), "")
        end = cp + 1
        if m.group(1) == "map":
            mu = re.compile(r"\s*\.\s*unwrap_or\s*\(").match(mk, cp + 1)
            if not mu:
                skip_from = m.end()
                continue
            uo = mu.end() - 1
            uc = match_delim(mk, uo)
            dflt = t.s[uo + 1:uc].strip()
            end = uc + 1
        t.replace(rs, end, "(match %s { Some(%s) => { %s }, None => %s })" % (recv, pat, body, dflt), t.o[m.start()])
        n += 1


_SPEC_START = re.compile(
    r"^\s*(proof\s*\{|let\s+ghost\b|let\s+tracked\b|invariant\b|invariant_except_break\b|ensures\b|decreases\b|requires\b|assert\b|//|$)"
)


def _check_spec_only(text, tl):
    """Overlay splices may contain only specification / ghost text.  Cheap syntactic check: the
    splice must start with a ghost keyword, and every top-level statement in it must too."""
    mk = mask(text)
    first = text.lstrip()
    if not _SPEC_START.match(first):
        raise Unsupported("template line %d: splice does not start with ghost/spec syntax" % tl)
    if re.match(r"\s*(invariant|invariant_except_break|ensures|decreases|requires)\b", first):
        return  # loop/function spec clauses: expressions only
    # walk top-level statements
    i = 0
    n = len(mk)
    while i < n:
        while i < n and mk[i].isspace():
            i += 1
        if i >= n:
            break
        m = re.compile(r"(proof\s*\{|let\s+ghost\b|let\s+tracked\b|assert\b)").match(mk, i)
        if not m:
            raise Unsupported("template line %d: executable statement in overlay splice: %r" % (tl, text[i : i + 40]))
        if m.group(0).endswith("{"):
            i = match_delim(mk, m.end() - 1) + 1
        else:
            i = _stmt_end(mk, i)


def _expand_includes(path, seen=None):
    """[(text, file, lineno)] with `//@include <relative path>` lines replaced by the file's lines."""
    import os
    seen = seen or []
    if path in seen:
        raise Unsupported("include cycle at %s" % path)
    res = []
    for k, ln in enumerate(open(path).read().split("\n")):
        st = ln.strip()
        if st.startswith("//@include"):
            inc = st[len("//@include"):].strip()
            ip = os.path.join(os.path.dirname(os.path.abspath(path)), inc)
            if not os.path.exists(ip):
                ip = os.path.join(os.path.dirname(os.path.dirname(os.path.abspath(__file__))), inc)
            res += _expand_includes(ip, seen + [path])
        else:
            res.append((ln, path, k + 1))
    if res and res[-1][0] == "":
        res.pop()
    return res


def render(template_path, out_path, vacuity=False, autoimport=()):
    """Process a template; write verifier input to out_path; return (report, linemap).
    linemap[i] = origin of output line i+1: ("repo", file, line) | ("spec", template file, line)."""
    src_lines = _expand_includes(template_path)
    lines = [t for (t, _f, _l) in src_lines]
    out = SrcText()
    report = []
    i = 0
    file_of_char = []  # parallel to out.o for repo-origin chars

    def emit(st: SrcText, repo_file=None):
        nonlocal file_of_char
        out.s += st.s
        out.o += st.o
        file_of_char += [repo_file] * len(st.s)

    while i < len(lines):
        ln = lines[i]
        st = ln.strip()
        if st.startswith("//@extract"):
            args, pos = parse_args(st[len("//@extract"):])
            ex = Extraction(args, pos, i + 1)
            i += 1
            while i < len(lines) and not lines[i].strip().startswith("//@end"):
                d = lines[i].strip()
                if not d.startswith("//@"):
                    raise Unsupported("%s:%d: non-directive line inside extract block" % (src_lines[i][1], src_lines[i][2]))
                d = d[3:].strip()
                if d.startswith("splice"):
                    optional = d.startswith("spliceopt")
                    where = d[len("spliceopt" if optional else "splice"):].strip()
                    if optional:
                        where = "optional=1 " + where
                    tl = i + 1
                    buf = []
                    while i + 1 < len(lines) and lines[i + 1].strip().startswith("//@ |"):
                        i += 1
                        buf.append(lines[i].strip()[5:])
                    ex.ops.append(("splice", (where, "\n".join(buf)), tl))
                elif d:
                    k, _, payload = d.partition(" ")
                    ex.ops.append((k, payload.strip(), i + 1))
                i += 1
            if i >= len(lines):
                raise Unsupported("%s: unterminated extract block" % template_path)
            t = run_extraction(ex, report)
            emit(t, ex.args["file"])
            emit(SrcText("\n", [-(i + 1)]))
            i += 1
        elif st.startswith("//@autoimport"):
            # helper functions that the extracted text calls and that are defined in the same repository file: imported verbatim on demand
            a_args, _p = parse_args(st[len("//@autoimport"):])
            for fname in autoimport:
                ex = Extraction({"file": a_args["file"], "fn": fname}, ["item"], i + 1)
                try:
                    t = run_extraction(ex, report)
                    report[-1]["rewrites"].append({"rule": "auto-imported helper function (called by an extracted fragment)", "name": fname})
                    emit(t, a_args["file"])
                    emit(SrcText("\n", [-(i + 1)]))
                except LostAnchor:
                    pass
            i += 1
        elif st.startswith("//@vacuity"):
            # canary slot inside an `ensures` list: only the shadow copy gets `false`
            vname = st[len("//@vacuity"):].strip()
            txt = ("false, //# vacuity-canary " + vname) if (vacuity is True or vacuity == vname) else ""
            emit(SrcText(txt + "\n", [-(i + 1)] * (len(txt) + 1)))
            i += 1
        else:
            emit(SrcText(ln + "\n", [-(i + 1)] * (len(ln) + 1)))
            i += 1
    open(out_path, "w").write(out.s)
    # line map
    linemap = []
    pos = 0
    for l in out.s.split("\n"):
        org = None
        for k in range(pos, pos + len(l)):
            if not out.s[k].isspace():
                o = out.o[k]
                if o > 0:
                    org = ("repo", file_of_char[k], o)
                elif o < 0 and -o - 1 < len(src_lines):
                    org = ("spec", src_lines[-o - 1][1], src_lines[-o - 1][2])
                break
        linemap.append(org)
        pos += len(l) + 1
    return report, linemap
