"""Run Kani/CBMC harness crates whose code under test is extracted from /repo on every run."""
import os
import re
import shutil
import subprocess
import time
from concurrent.futures import ThreadPoolExecutor

from . import extract
from .lex import LostAnchor, Unsupported

TAG = re.compile(r"//#\s*([\w\-\.:]+)")


def _run_harness(crate_dir, target_dir, h, extra=None, timeout=1800, playback=False):
    cmd = ["cargo", "kani", "--target-dir", target_dir, "--harness", h["name"], "--output-format", "terse"]
    cmd += h.get("args", [])
    if playback:
        cmd += ["-Z", "concrete-playback", "--concrete-playback=print"]
    env = dict(os.environ, CARGO_NET_OFFLINE="true")
    t0 = time.time()
    import signal
    p = subprocess.Popen(cmd, cwd=crate_dir, env=env, stdout=subprocess.PIPE, stderr=subprocess.PIPE, text=True, start_new_session=True)
    try:
        so, se = p.communicate(timeout=timeout)
        out = so + "\n" + se
        rc = p.returncode
    except subprocess.TimeoutExpired:
        try:
            os.killpg(os.getpgid(p.pid), signal.SIGKILL)
        except Exception:
            pass
        p.communicate()
        out = "TIMEOUT"
        rc = -9
    dt = time.time() - t0
    res = {"name": h["name"], "time_s": round(dt, 1), "cmd": "cd %s && CARGO_NET_OFFLINE=true %s" % (crate_dir, " ".join(cmd)),
           "complete": bool(h.get("complete")), "bound": h.get("bound")}
    if rc == -9:
        res["status"] = "undecided"
        res["reason"] = "cbmc timeout after %ds" % timeout
        return res, out
    m = re.search(r"\*\* (\d+) of (\d+) failed", out)
    if m:
        res["failed"] = int(m.group(1))
        res["checks"] = int(m.group(2))
    covers = re.search(r"\*\* (\d+) of (\d+) cover properties satisfied", out)
    if covers:
        res["covers_satisfied"] = int(covers.group(1))
        res["covers_total"] = int(covers.group(2))
    if "VERIFICATION:- SUCCESSFUL" in out:
        res["status"] = "verified"
        if covers and int(covers.group(1)) < int(covers.group(2)):
            res["status"] = "undecided"
            res["reason"] = "reachability guard: only %s of %s cover properties satisfied (vacuous harness?)" % covers.groups()
    elif "VERIFICATION:- FAILED" in out:
        res["status"] = "failed"
        fails = []
        for fm in re.finditer(r"Failed Checks: (.*)\n\s*File: \"([^\"]+)\", line (\d+), in (\S+)", out):
            fails.append({"description": fm.group(1), "file": fm.group(2), "line": int(fm.group(3)), "function": fm.group(4)})
        res["failed_checks"] = fails
        if not fails:
            # FAILED without a failed check: CBMC crashed / ran out of memory / hit an unsupported construct — a tool limit, not a verdict
            res["status"] = "undecided"
            why = [l.strip() for l in out.splitlines() if "CBMC" in l or "unsupported" in l.lower()][:3]
            res["reason"] = "kani reported FAILED without any failed check (tool limit): " + " | ".join(why)
        elif any("unwinding assertion" in f["description"] for f in fails) and all("unwinding assertion" in f["description"] for f in fails):
            res["status"] = "undecided"
            res["reason"] = "only unwinding assertions failed: the unwind bound is too small for this code (not a property violation)"
    else:
        res["status"] = "undecided"
        errs = [l for l in out.splitlines() if l.startswith("error")][:6]
        res["reason"] = "kani did not report a verification result: " + (" | ".join(errs) if errs else out[-300:].replace("\n", " "))
    return res, out


def render_crate(here, u, autoimport=()):
    src_dir = os.path.join(here, u["crate"])
    d = os.path.join(here, "build", "kani", u["name"])
    os.makedirs(os.path.join(d, "src"), exist_ok=True)
    os.makedirs(os.path.join(d, ".cargo"), exist_ok=True)
    report, linemap = extract.render(os.path.join(src_dir, "main.rs.tmpl"), os.path.join(d, "src", "main.rs"), autoimport=autoimport)
    shutil.copy(os.path.join(src_dir, "Cargo.toml"), os.path.join(d, "Cargo.toml"))
    if os.path.exists("/repo/Cargo.lock") and u.get("use_repo_lock", False):
        shutil.copy("/repo/Cargo.lock", os.path.join(d, "Cargo.lock"))
    open(os.path.join(d, ".cargo", "config.toml"), "w").write("[net]\noffline = true\n")
    return d, report, linemap


def run_unit(prop, u, tier, ctx, here):
    rec = {"unit": u["name"], "engine": "kani"}
    try:
        d, report, linemap = render_crate(here, u)
    except (LostAnchor, Unsupported) as e:
        rec["status"] = "undecided"
        rec["reason"] = "%s: %s" % (type(e).__name__, e)
        return rec
    rec["extraction"] = report
    gen_lines = open(os.path.join(d, "src", "main.rs")).read().split("\n")
    target = os.path.join(here, "build", "kani-target")
    hs = [h for h in u["harnesses"] if not (h.get("tier") == "thorough" and tier != "thorough")]
    if not hs:
        # every harness of this unit belongs to the thorough tier: nothing ran, nothing is claimed for this run
        rec["status"] = "skipped"
        rec["reason"] = "all harnesses of this unit are thorough-tier only"
        rec["harnesses"] = []
        return rec
    # first harness alone (compiles the crate), the rest in parallel
    results = []
    outs = {}
    r0, o0 = _run_harness(d, target, hs[0], timeout=u.get("timeout", 1500))
    # helper functions called by an extracted fragment but defined elsewhere in the same file: import them and retry
    tries = 0
    imported = []
    while r0["status"] == "undecided" and tries < 3:
        missing = [m for m in re.findall(r"cannot find function `(\w+)` in this scope", o0) if m not in imported]
        if not missing:
            break
        imported += missing
        d, report, linemap = render_crate(here, u, autoimport=tuple(imported))
        rec["extraction"] = report
        gen_lines = open(os.path.join(d, "src", "main.rs")).read().split("\n")
        r0, o0 = _run_harness(d, target, hs[0], timeout=u.get("timeout", 1500))
        tries += 1
    results.append(r0)
    outs[hs[0]["name"]] = o0
    if r0["status"] == "undecided" and "did not report" in r0.get("reason", ""):
        rec["status"] = "undecided"
        rec["reason"] = "harness crate does not build / run: " + r0["reason"]
        rec["harnesses"] = results
        return rec
    with ThreadPoolExecutor(max_workers=u.get("parallel", 4)) as ex:
        for (r, o) in ex.map(lambda h: _run_harness(d, target, h, timeout=u.get("timeout", 1500)), hs[1:]):
            results.append(r)
            outs[r["name"]] = o
    rec["harnesses"] = results
    rec["cmd"] = results[0]["cmd"].replace("--harness %s" % hs[0]["name"], "--harness <each of: %s>" % ",".join(h["name"] for h in hs))
    rec["trusted"] = list(u.get("trusted", []))
    failures = []
    for r in results:
        if r["status"] != "failed":
            continue
        for fc in r.get("failed_checks", []):
            if "unwinding assertion" in fc["description"]:
                continue
            tag = None
            repo_loc = None
            if fc["file"].endswith("src/main.rs"):
                ln = fc["line"]
                if 0 < ln <= len(gen_lines):
                    m = TAG.search(gen_lines[ln - 1])
                    tag = m.group(1) if m else None
                o = linemap[ln - 1] if ln - 1 < len(linemap) else None
                if o and o[0] == "repo":
                    repo_loc = "%s:%d" % (o[1], o[2])
            kind = "assertion" if tag else "safety"
            name = "%s::%s::%s%s" % (u["name"], r["name"], kind, (":" + tag) if tag else ":" + re.sub(r"\W+", "-", fc["description"])[:60])
            failures.append({"obligation": name, "kind": kind, "tag": tag, "repo_location": repo_loc,
                             "spec_location": "%s:%d" % (os.path.basename(fc["file"]), fc["line"]),
                             "message": fc["description"], "harness": r["name"], "bounded": not r["complete"],
                             "rendered": "Kani harness %s (%s): failed check `%s` at %s:%d in %s\n" % (
                                 r["name"], "complete" if r["complete"] else "bounded: %s" % r.get("bound"), fc["description"], fc["file"], fc["line"], fc["function"])})
    # concrete playback for the first failing harness (values of each kani::any() in order)
    if failures and u.get("playback", True):
        hname = failures[0]["harness"]
        h = next(h for h in hs if h["name"] == hname)
        _r, out = _run_harness(d, target, h, timeout=u.get("timeout", 1500), playback=True)
        vals = re.findall(r"//\s*(-?\d+|true|false|'.')\s*\n\s*vec!\[([^\]]*)\]", out)
        pb = "; ".join("%s" % v[0] for v in vals[:60])
        for f in failures:
            if f["harness"] == hname:
                f["rendered"] += "\nconcrete playback (values of kani::any() calls in order): %s\n" % (pb or "(not produced)")
                f["kani_playback"] = pb
                if pb:
                    # the harness runs the function text extracted from /repo: these values are a failing input of that code
                    f["input"] = {"kani_concrete_playback": "values of the harness's kani::any() calls, in order: %s" % pb, "harness": hname}
                    f["replay_result"] = "Kani concrete playback of harness %s (extracted code); see the assertion text above" % hname
    rec["failures"] = failures
    if failures:
        rec["status"] = "failed"
    elif any(r["status"] != "verified" for r in results):
        rec["status"] = "undecided"
        rec["reason"] = "; ".join("%s: %s" % (r["name"], r.get("reason") or r["status"]) for r in results if r["status"] != "verified")
    else:
        rec["status"] = "verified"
    return rec
