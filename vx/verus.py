"""Run Verus on a rendered unit and turn its output into named obligations."""
import json
import os
import re
import subprocess
import time

VERUS = "verus"

VERIF_KINDS = [
    ("postcondition not satisfied", "ensures"),
    ("precondition not satisfied", "requires-of-callee"),
    ("invariant not satisfied at end of loop body", "invariant-preserved"),
    ("invariant not satisfied before loop", "invariant-established"),
    ("loop invariant not satisfied", "invariant-at-exit"),
    ("assertion failed", "proof-step"),
    ("possible arithmetic underflow/overflow", "overflow"),
    ("possible division by zero", "div-by-zero"),
    ("decreases not satisfied", "decreases"),
    ("could not prove termination", "decreases"),
    ("possible bit shift underflow/overflow", "shift-overflow"),
    ("index out of bounds", "bounds"),
    ("unreachable", "unreachable-panic"),
    ("assert_forall_by", "proof-step"),
    ("unable to prove post-condition of closure", "closure-ensures"),
    ("unable to prove pre-condition of closure", "closure-requires"),
]


def _classify(msg):
    for pat, kind in VERIF_KINDS:
        if pat in msg:
            return kind
    return None


def run(rs_path, rlimit=None, expand=False, timeout=600, threads=8, seed=None):
    """Returns a dict describing the run.  status ∈ {"verified","failed","undecided"}."""
    cmd = [VERUS, os.path.basename(rs_path), "--output-json", "--time", "--triggers-mode", "silent",
           "--error-format=json", "--num-threads", str(threads), "--multiple-errors", "8"]
    if rlimit:
        cmd += ["--rlimit", str(rlimit)]
    if expand:
        cmd += ["--expand-errors"]
    if seed is not None:
        cmd += ["--smt-option", "smt.random_seed=%d" % seed, "--smt-option", "sat.random_seed=%d" % seed]
    t0 = time.time()
    try:
        p = subprocess.run(cmd, cwd=os.path.dirname(rs_path), capture_output=True, text=True, timeout=timeout)
    except subprocess.TimeoutExpired:
        return {"status": "undecided", "reason": "verus timeout after %ds" % timeout, "cmd": " ".join(cmd), "wall_s": time.time() - t0,
                "functions": [], "failures": [], "verified": 0, "errors": 0, "smt_ms": 0}
    wall = time.time() - t0
    res = {"cmd": " ".join(cmd), "wall_s": round(wall, 2), "functions": [], "failures": [], "raw_errors": []}
    try:
        js = json.loads(p.stdout)
    except Exception:
        js = None
    diags = []
    for line in p.stderr.splitlines():
        line = line.strip()
        if line.startswith("{"):
            try:
                diags.append(json.loads(line))
            except Exception:
                pass
    compile_errors = []
    rlimit_hit = False
    for d in diags:
        if d.get("level") != "error":
            continue
        msg = d.get("message", "")
        if msg.startswith("aborting due to"):
            continue
        kind = _classify(msg)
        if "Resource limit" in msg or "rlimit" in msg:
            rlimit_hit = True
            continue
        spans = d.get("spans", [])
        prim = [s for s in spans if s.get("is_primary")]
        sec = [s for s in spans if not s.get("is_primary")]
        if kind is None:
            compile_errors.append(msg + (" @%s" % prim[0]["line_start"] if prim else ""))
            continue
        res["failures"].append({
            "kind": kind, "message": msg,
            "primary": [(s["line_start"], s["line_end"], s.get("label")) for s in prim],
            "secondary": [(s["line_start"], s["line_end"], s.get("label")) for s in sec],
            "rendered": d.get("rendered", "")[:4000],
        })
    # with --expand-errors Verus emits extra note-level diagnostics pointing at the failing conjunct
    res["expand_spans"] = []
    if expand:
        for d in diags:
            if d.get("level") == "note" and d.get("message", "").startswith("diagnostics via expansion"):
                for sp in d.get("spans", []):
                    res["expand_spans"].append((sp["line_start"], sp["line_end"]))
                res.setdefault("expansions", []).append(d.get("message", "")[:6000])
    if js:
        vr = js.get("verification-results", {})
        res["verified"] = vr.get("verified", 0)
        res["errors"] = vr.get("errors", 0)
        smt = js.get("times-ms", {}).get("smt", {})
        res["smt_ms"] = smt.get("total", 0)
        for mod in smt.get("smt-run-module-times", []):
            for f in mod.get("function-breakdown", []):
                res["functions"].append({"name": f["function"], "mode": f.get("mode:", f.get("mode")), "ok": f["success"],
                                         "time_ms": f["time"], "rlimit": f["rlimit"]})
        if vr.get("encountered-vir-error"):
            compile_errors.append("VIR error")
    else:
        res["verified"] = 0
        res["errors"] = 0
        res["smt_ms"] = 0
    if compile_errors or js is None or (js and js["verification-results"].get("encountered-error") and not res["failures"] and not rlimit_hit):
        res["status"] = "undecided"
        res["reason"] = "front-end error (not a verification failure): " + "; ".join(compile_errors[:5]) if compile_errors else \
            ("verus produced no result: " + p.stderr[-500:])
    elif rlimit_hit and not res["failures"]:
        res["status"] = "undecided"
        res["reason"] = "solver resource limit exceeded"
    elif res["failures"]:
        res["status"] = "failed"
    else:
        res["status"] = "verified" if js["verification-results"].get("success") else "undecided"
        if res["status"] == "undecided":
            res["reason"] = "verus reported no success and no failure"
    res["rlimit_hit"] = rlimit_hit
    return res


TAG = re.compile(r"//#\s*([\w\-\.:]+)")


def name_failures(res, gen_lines, linemap, unit):
    """Attach an obligation name + repo location to each failure."""
    out = []
    for f in res["failures"]:
        tag = None
        repo_loc = None
        spec_loc = None
        spans = list(f["primary"]) + list(f["secondary"])
        # narrowest expand span inside a primary span gives the conjunct
        cands = []
        for (a, b, _l) in f["primary"]:
            inner = [(x, y) for (x, y) in res.get("expand_spans", []) if a <= x and y <= b]
            inner.sort(key=lambda t: t[1] - t[0])
            cands += inner
            cands.append((a, b))
        for (a, b) in cands:
            for ln in range(a, b + 1):
                m = TAG.search(gen_lines[ln - 1]) if ln - 1 < len(gen_lines) else None
                if m:
                    tag = m.group(1)
                    break
            if tag:
                break
        if not tag:
            for (a, b, _l) in f["secondary"]:
                for ln in range(a, min(b, a + 3) + 1):
                    m = TAG.search(gen_lines[ln - 1]) if ln - 1 < len(gen_lines) else None
                    if m:
                        tag = m.group(1)
                        break
                if tag:
                    break
        for (a, b, _l) in spans:
            o = linemap[a - 1] if a - 1 < len(linemap) else None
            if o and o[0] == "repo" and not repo_loc:
                repo_loc = "%s:%d" % (o[1], o[2])
            if o and o[0] == "spec" and not spec_loc:
                spec_loc = "%s:%d" % (os.path.basename(o[1]), o[2])
        if not repo_loc and spans:
            # the failing line is contract / proof text: point at the code it is about — the nearest line of /repo origin after it
            # (the body follows the contract; a spliced proof step precedes the statement it talks about), else the nearest before
            a0 = spans[0][0]
            for ln in list(range(a0, min(a0 + 400, len(linemap)))) + list(range(a0 - 1, max(a0 - 400, 0), -1)):
                o = linemap[ln - 1] if 0 < ln <= len(linemap) else None
                if o and o[0] == "repo":
                    repo_loc = "%s:%d(nearest-code-line)" % (o[1], o[2])
                    break
        name = "%s::%s%s" % (unit, f["kind"], (":" + tag) if tag else "")
        out.append({"obligation": name, "kind": f["kind"], "tag": tag, "repo_location": repo_loc, "spec_location": spec_loc,
                    "message": f["message"], "rendered": f["rendered"]})
    return out


def count_tagged(gen_lines):
    return [m.group(1) for l in gen_lines for m in [TAG.search(l)] if m]
