"""Structural obligations discharged by the extractor itself (reported as such, not SMT).

Each check re-reads /repo's working tree, locates the function, and decides syntactic facts about the
real text (order of builder calls, dominance of a guard over later calls).  Anything it cannot parse
=> undecided, never a violation.
"""
import os
import re

from .lex import mask, match_delim, find_fn, find_impls, LostAnchor, Unsupported

REPO = "/repo"


def _fn_body(file, fn, impl=None):
    src = open(os.path.join(REPO, file)).read()
    msk = mask(src)
    lo, hi = 0, len(src)
    if impl:
        c = list(find_impls(src, msk, impl))
        if not c:
            raise LostAnchor("impl /%s/ not found in %s" % (impl, file))
        lo, hi = c[0][1], c[0][2]
    s, o, c = find_fn(src, msk, fn, lo, hi)
    return src, msk, o, c


def _line(src, off):
    return src.count("\n", 0, off) + 1


def _chain_calls(src, msk, start, end):
    """method calls `.name(args)` at nesting depth 0 of the expression msk[start:end] -> [(name, arg_text, offset)]"""
    out = []
    j = start
    while j < end:
        ch = msk[j]
        if ch in "([{":
            j = match_delim(msk, j) + 1
            continue
        m = re.compile(r"\.\s*([A-Za-z_]\w*)\s*(::<[^>]*>)?\s*\(").match(msk, j)
        if m:
            op = m.end() - 1
            cl = match_delim(msk, op)
            out.append((m.group(1), src[op + 1:cl], j))
            j = cl + 1
            continue
        j += 1
    return out


def check_authz_layer(u):
    """C17/S17.2: every `.route(` of the API router precedes the single
    `.layer(axum::middleware::from_fn(require_authz))`; nothing that adds routes follows it; the router
    that is served is that router."""
    file = u["file"]
    src, msk, o, c = _fn_body(file, u["fn"])
    body = msk[o:c]
    m = re.search(r"\blet\s+api\s*=\s*Router\b", body)
    if not m:
        raise LostAnchor("`let api = Router…` not found in %s" % u["fn"])
    st = o + m.start()
    # end of statement
    j = st
    while j < c:
        if msk[j] in "([{":
            j = match_delim(msk, j)
        elif msk[j] == ";":
            break
        j += 1
    en = j
    calls = _chain_calls(src, msk, st, en)
    obligations = []
    routes = [(a, off) for (n, a, off) in calls if n == "route"]
    adders = [(n, off) for (n, a, off) in calls if n in ("route", "merge", "nest", "nest_service", "route_service", "fallback", "fallback_service")]
    authz = [off for (n, a, off) in calls if n == "layer" and re.sub(r"\s+", "", a) == "axum::middleware::from_fn(require_authz)"]
    failures = []
    obligations.append("authz-layer-present-exactly-once")
    if len(authz) != 1:
        failures.append(("authz-layer-present-exactly-once", _line(src, st), "found %d `.layer(axum::middleware::from_fn(require_authz))` calls on the API router" % len(authz)))
    for (a, off) in routes:
        path = a.split(",")[0].strip()
        name = "route-%s-behind-authz-layer" % re.sub(r"[^\w]+", "-", path).strip("-")
        obligations.append(name)
        if len(authz) == 1 and off > authz[0]:
            failures.append((name, _line(src, off), "route %s is added after the authz layer, so the middleware does not wrap it" % path))
        # a per-route layer cannot remove the outer one, but a nested Router could be served separately: not parsed
    obligations.append("no-route-adding-call-after-authz-layer")
    if len(authz) == 1:
        late = [(n, off) for (n, off) in adders if off > authz[0]]
        if late:
            failures.append(("no-route-adding-call-after-authz-layer", _line(src, late[0][1]), "`.%s(` follows the authz layer" % late[0][0]))
    obligations.append("served-app-is-the-guarded-router")
    served = re.findall(r"\blet\s+app\s*=\s*(\w+)\s*\.\s*clone\(\)\s*\.\s*into_make_service", re.sub(r"\s+", " ", body))
    other_routers = len(re.findall(r"\bRouter\s*(::<[^>]*>)?\s*::\s*new\s*\(", body))
    if served != ["api"] or other_routers != 1:
        failures.append(("served-app-is-the-guarded-router", _line(src, st), "served=%s routers constructed=%d" % (served, other_routers)))
    if not routes:
        raise LostAnchor("no .route( calls found on the API router")
    return obligations, failures, ["%s:%d route %s" % (file, _line(src, off), a.split(",")[0].strip()) for (a, off) in routes]


def check_readonly_guard(u):
    """C17/F17.3: in the query endpoint every `prepped.query(` is dominated by the
    `if !prepped.readonly() { …; return; }` guard; `prepped` is not rebound after the guard; the
    connection comes from the read-only pool (`pool.read()`)."""
    file = u["file"]
    src, msk, o, c = _fn_body(file, u["fn"])
    body = msk[o:c]
    obligations = ["readonly-guard-present-and-returns", "every-query-call-after-guard", "statement-not-rebound-after-guard", "connection-from-read-pool"]
    failures = []
    g = re.search(r"\bif\s*!\s*prepped\s*\.\s*readonly\s*\(\s*\)\s*\{", body)
    if not g:
        failures.append(("readonly-guard-present-and-returns", _line(src, o), "`if !prepped.readonly() {` not found"))
        return obligations, failures, []
    gopen = o + g.end() - 1
    gclose = match_delim(msk, gopen)
    blk = msk[gopen + 1:gclose]
    # the guard block must end with `return;` at its own depth, and the `if` must be at the depth of the later query calls' enclosing closure
    stmts = [s.strip() for s in re.split(r";", re.sub(r"\{[^{}]*\}", "{}", re.sub(r"\([^()]*\)", "()", blk))) if s.strip()]
    if not stmts or not re.fullmatch(r"return(\s+.*)?", stmts[-1]):
        failures.append(("readonly-guard-present-and-returns", _line(src, gopen), "guard block does not end with `return`"))
    if re.match(r"\s*else\b", msk[gclose + 1:gclose + 20]):
        failures.append(("readonly-guard-present-and-returns", _line(src, gclose), "guard has an else branch (not an early return)"))
    qs = [o + m.start() for m in re.finditer(r"\bprepped\s*\.\s*(query|query_map|query_row|execute|raw_execute|insert|exists)\s*\(", body)]
    if not qs:
        raise LostAnchor("no prepped.query( call found")
    samples = []
    for q in qs:
        samples.append("%s:%d statement use after guard at line %d" % (file, _line(src, q), _line(src, gopen)))
        if q < gclose:
            failures.append(("every-query-call-after-guard", _line(src, q), "statement is run before the readonly guard"))
        else:
            # dominance: the guard's enclosing block must enclose the call
            depth = 0
            k = gclose + 1
            ok = True
            while k < q:
                if msk[k] == "{":
                    depth += 1
                elif msk[k] == "}":
                    depth -= 1
                    if depth < 0:
                        ok = False
                        break
                k += 1
            if not ok:
                failures.append(("every-query-call-after-guard", _line(src, q), "call is outside the block the guard lives in (guard does not dominate it)"))
    after = msk[gclose:c]
    if re.search(r"\blet\s+(mut\s+)?prepped\b", after) or re.search(r"\bprepped\s*=[^=]", after):
        failures.append(("statement-not-rebound-after-guard", _line(src, gclose), "`prepped` is rebound after the guard"))
    pre = msk[o:gopen]
    if not re.search(r"\bpool\s*\.\s*read\s*\(\s*\)", pre) or re.search(r"\bpool\s*\.\s*write_\w+\s*\(", msk[o:c]):
        failures.append(("connection-from-read-pool", _line(src, o), "connection is not taken from pool.read()"))
    if not re.search(r"\bconn\s*\.\s*prepare\s*\(", pre):
        failures.append(("connection-from-read-pool", _line(src, o), "statement is not prepared on that connection"))
    return obligations, failures, samples


def check_read_pool(u):
    """C17: the pool handed out by `pool.read()` is opened read-only: in SplitPool::create the `ro_pool` builder chain
    contains `.read_only()` and that pool (not the RW one) is passed as the `read` argument of SplitPool::new."""
    file = u["file"]
    src, msk, o, c = _fn_body(file, u["fn"], u.get("impl"))
    body = msk[o:c]
    obligations = ["read-pool-config-is-read-only", "read-pool-is-passed-as-read-argument"]
    failures = []
    m = re.search(r"\blet\s+ro_pool\s*=", body)
    if not m:
        raise LostAnchor("`let ro_pool =` not found in %s" % u["fn"])
    st = o + m.end()
    j = st
    while j < c:
        if msk[j] in "([{":
            j = match_delim(msk, j)
        elif msk[j] == ";":
            break
        j += 1
    calls = _chain_calls(src, msk, st, j)
    names = [n for (n, a, off) in calls]
    if "read_only" not in names or "create_pool_transform" not in names or names.index("read_only") > names.index("create_pool_transform"):
        failures.append(("read-pool-config-is-read-only", _line(src, st), "the ro_pool builder chain is %s: no `.read_only()` before the pool is created" % names))
    # the head of the chain must be a fresh Config::new(..) (a shared config variable could have been built without read_only)
    head = re.sub(r"\s+", "", src[st:calls[0][2]] if calls else src[st:j])
    if not re.fullmatch(r"sqlite_pool::Config::new\(path\.as_ref\(\)\)", head + ("" if head.endswith(")") else "")) and not head.startswith("sqlite_pool::Config::new("):
        failures.append(("read-pool-config-is-read-only", _line(src, st), "ro_pool is not built from a fresh sqlite_pool::Config::new(..): `%s`" % head[:60]))
    mnew = re.search(r"Self::new\(", body)
    if not mnew:
        raise LostAnchor("Self::new( not found")
    op = o + mnew.end() - 1
    args = [a.strip() for a in re.sub(r"\s+", " ", src[op + 1:match_delim(msk, op)]).split(",") if a.strip()]
    if len(args) < 4 or args[2] != "ro_pool" or args[3] != "rw_pool":
        failures.append(("read-pool-is-passed-as-read-argument", _line(src, op), "Self::new arguments are %s" % args))
    return obligations, failures, ["%s:%d ro_pool chain %s" % (file, _line(src, st), names)]


CHECKS = {"authz_layer": check_authz_layer, "readonly_guard": check_readonly_guard, "read_pool": check_read_pool}


def run_unit(prop, u, tier, ctx, here):
    rec = {"unit": u["name"], "engine": "structural"}
    try:
        obligations, failures, samples = CHECKS[u["check"]](u)
    except (LostAnchor, Unsupported) as e:
        rec["status"] = "undecided"
        rec["reason"] = "%s: %s" % (type(e).__name__, e)
        return rec
    rec["obligations"] = len(obligations)
    failed_names = set(f[0] for f in failures)
    rec["discharged"] = len([x for x in obligations if x not in failed_names])
    rec["samples"] = ["%s: structural obligation `%s`" % (u["name"], x) for x in obligations[:8]] + samples[:4]
    rec["cmd"] = "./check %s --only %s   (structural: vx/structural.py %s on %s::%s)" % (prop, u["name"], u["check"], u["file"], u["fn"])
    rec["trusted"] = list(u.get("trusted", []))
    rec["failures"] = [{"obligation": "%s::structural:%s" % (u["name"], n), "kind": "structural", "tag": n,
                        "repo_location": "%s:%d" % (u["file"], ln), "spec_location": None, "message": msg,
                        "input": {"call_site": "%s:%d" % (u["file"], ln)}, "replay_result": msg,
                        "rendered": "structural obligation `%s` does not hold at %s:%d: %s" % (n, u["file"], ln, msg)} for (n, ln, msg) in failures]
    rec["status"] = "failed" if failures else "verified"
    return rec
