"""Structural obligations discharged by the extractor itself (reported as such, not SMT).

Each check re-reads /repo's working tree, locates the function, and decides syntactic facts about the
real text (order of builder calls, dominance of a guard over later calls).  Anything it cannot parse
=> undecided, never a violation.
"""
import os
import re

from .lex import mask, match_delim, find_fn, find_impls, LostAnchor, Unsupported

REPO = "/repo"


def _fn_body(file, fn, impl=None):
    src = open(os.path.join(REPO, file)).read()
    msk = mask(src)
    lo, hi = 0, len(src)
    if impl:
        c = list(find_impls(src, msk, impl))
        if not c:
            raise LostAnchor("impl /%s/ not found in %s" % (impl, file))
        lo, hi = c[0][1], c[0][2]
    s, o, c = find_fn(src, msk, fn, lo, hi)
    return src, msk, o, c


def _line(src, off):
    return src.count("\n", 0, off) + 1


def _chain_calls(src, msk, start, end):
    """method calls `.name(args)` at nesting depth 0 of the expression msk[start:end] -> [(name, arg_text, offset)]"""
    out = []
    j = start
    while j < end:
        ch = msk[j]
        if ch in "([{":
            j = match_delim(msk, j) + 1
            continue
        m = re.compile(r"\.\s*([A-Za-z_]\w*)\s*(::<[^>]*>)?\s*\(").match(msk, j)
        if m:
            op = m.end() - 1
            cl = match_delim(msk, op)
            out.append((m.group(1), src[op + 1:cl], j))
            j = cl + 1
            continue
        j += 1
    return out


def check_authz_layer(u):
    """C17/S17.2: every `.route(` of the API router precedes the single
    `.layer(axum::middleware::from_fn(require_authz))`; nothing that adds routes follows it; the router
    that is served is that router."""
    file = u["file"]
    src, msk, o, c = _fn_body(file, u["fn"])
    body = msk[o:c]
    m = re.search(r"\blet\s+api\s*=\s*Router\b", body)
    if not m:
        raise LostAnchor("`let api = Router…` not found in %s" % u["fn"])
    st = o + m.start()
    # end of statement
    j = st
    while j < c:
        if msk[j] in "([{":
            j = match_delim(msk, j)
        elif msk[j] == ";":
            break
        j += 1
    en = j
    calls = _chain_calls(src, msk, st, en)
    obligations = []
    routes = [(a, off) for (n, a, off) in calls if n == "route"]
    adders = [(n, off) for (n, a, off) in calls if n in ("route", "merge", "nest", "nest_service", "route_service", "fallback", "fallback_service")]
    authz = [off for (n, a, off) in calls if n == "layer" and re.sub(r"\s+", "", a) == "axum::middleware::from_fn(require_authz)"]
    failures = []
    obligations.append("authz-layer-present-exactly-once")
    if len(authz) != 1:
        failures.append(("authz-layer-present-exactly-once", _line(src, st), "found %d `.layer(axum::middleware::from_fn(require_authz))` calls on the API router" % len(authz)))
    for (a, off) in routes:
        path = a.split(",")[0].strip()
        name = "route-%s-behind-authz-layer" % re.sub(r"[^\w]+", "-", path).strip("-")
        obligations.append(name)
        if len(authz) == 1 and off > authz[0]:
            failures.append((name, _line(src, off), "route %s is added after the authz layer, so the middleware does not wrap it" % path))
        # a per-route layer cannot remove the outer one, but a nested Router could be served separately: not parsed
    obligations.append("no-route-adding-call-after-authz-layer")
    if len(authz) == 1:
        late = [(n, off) for (n, off) in adders if off > authz[0]]
        if late:
            failures.append(("no-route-adding-call-after-authz-layer", _line(src, late[0][1]), "`.%s(` follows the authz layer" % late[0][0]))
    obligations.append("served-app-is-the-guarded-router")
    served = re.findall(r"\blet\s+app\s*=\s*(\w+)\s*\.\s*clone\(\)\s*\.\s*into_make_service", re.sub(r"\s+", " ", body))
    other_routers = len(re.findall(r"\bRouter\s*(::<[^>]*>)?\s*::\s*new\s*\(", body))
    if served != ["api"] or other_routers != 1:
        failures.append(("served-app-is-the-guarded-router", _line(src, st), "served=%s routers constructed=%d" % (served, other_routers)))
    if not routes:
        raise LostAnchor("no .route( calls found on the API router")
    return obligations, failures, ["%s:%d route %s" % (file, _line(src, off), a.split(",")[0].strip()) for (a, off) in routes]


def check_readonly_guard(u):
    """C17/F17.3: in the query endpoint every `prepped.query(` is dominated by the
    `if !prepped.readonly() { …; return; }` guard; `prepped` is not rebound after the guard; the
    connection comes from the read-only pool (`pool.read()`)."""
    file = u["file"]
    src, msk, o, c = _fn_body(file, u["fn"])
    body = msk[o:c]
    obligations = ["readonly-guard-present-and-returns", "every-query-call-after-guard", "statement-not-rebound-after-guard", "connection-from-read-pool"]
    failures = []
    g = re.search(r"\bif\s*!\s*prepped\s*\.\s*readonly\s*\(\s*\)\s*\{", body)
    if not g:
        failures.append(("readonly-guard-present-and-returns", _line(src, o), "`if !prepped.readonly() {` not found"))
        return obligations, failures, []
    gopen = o + g.end() - 1
    gclose = match_delim(msk, gopen)
    blk = msk[gopen + 1:gclose]
    # the guard block must end with `return;` at its own depth, and the `if` must be at the depth of the later query calls' enclosing closure
    stmts = [s.strip() for s in re.split(r";", re.sub(r"\{[^{}]*\}", "{}", re.sub(r"\([^()]*\)", "()", blk))) if s.strip()]
    if not stmts or not re.fullmatch(r"return(\s+.*)?", stmts[-1]):
        failures.append(("readonly-guard-present-and-returns", _line(src, gopen), "guard block does not end with `return`"))
    if re.match(r"\s*else\b", msk[gclose + 1:gclose + 20]):
        failures.append(("readonly-guard-present-and-returns", _line(src, gclose), "guard has an else branch (not an early return)"))
    qs = [o + m.start() for m in re.finditer(r"\bprepped\s*\.\s*(query|query_map|query_row|execute|raw_execute|insert|exists)\s*\(", body)]
    if not qs:
        raise LostAnchor("no prepped.query( call found")
    samples = []
    for q in qs:
        samples.append("%s:%d statement use after guard at line %d" % (file, _line(src, q), _line(src, gopen)))
        if q < gclose:
            failures.append(("every-query-call-after-guard", _line(src, q), "statement is run before the readonly guard"))
        else:
            # dominance: the guard's enclosing block must enclose the call
            depth = 0
            k = gclose + 1
            ok = True
            while k < q:
                if msk[k] == "{":
                    depth += 1
                elif msk[k] == "}":
                    depth -= 1
                    if depth < 0:
                        ok = False
                        break
                k += 1
            if not ok:
                failures.append(("every-query-call-after-guard", _line(src, q), "call is outside the block the guard lives in (guard does not dominate it)"))
    after = msk[gclose:c]
    if re.search(r"\blet\s+(mut\s+)?prepped\b", after) or re.search(r"\bprepped\s*=[^=]", after):
        failures.append(("statement-not-rebound-after-guard", _line(src, gclose), "`prepped` is rebound after the guard"))
    pre = msk[o:gopen]
    if not re.search(r"\bpool\s*\.\s*read\s*\(\s*\)", pre) or re.search(r"\bpool\s*\.\s*write_\w+\s*\(", msk[o:c]):
        failures.append(("connection-from-read-pool", _line(src, o), "connection is not taken from pool.read()"))
    if not re.search(r"\bconn\s*\.\s*prepare\s*\(", pre):
        failures.append(("connection-from-read-pool", _line(src, o), "statement is not prepared on that connection"))
    return obligations, failures, samples


def check_read_pool(u):
    """C17: the pool handed out by `pool.read()` is opened read-only: in SplitPool::create the `ro_pool` builder chain
    contains `.read_only()` and that pool (not the RW one) is passed as the `read` argument of SplitPool::new."""
    file = u["file"]
    src, msk, o, c = _fn_body(file, u["fn"], u.get("impl"))
    body = msk[o:c]
    obligations = ["read-pool-config-is-read-only", "read-pool-is-passed-as-read-argument"]
    failures = []
    m = re.search(r"\blet\s+ro_pool\s*=", body)
    if not m:
        raise LostAnchor("`let ro_pool =` not found in %s" % u["fn"])
    st = o + m.end()
    j = st
    while j < c:
        if msk[j] in "([{":
            j = match_delim(msk, j)
        elif msk[j] == ";":
            break
        j += 1
    calls = _chain_calls(src, msk, st, j)
    names = [n for (n, a, off) in calls]
    if "read_only" not in names or "create_pool_transform" not in names or names.index("read_only") > names.index("create_pool_transform"):
        failures.append(("read-pool-config-is-read-only", _line(src, st), "the ro_pool builder chain is %s: no `.read_only()` before the pool is created" % names))
    # the head of the chain must be a fresh Config::new(..) (a shared config variable could have been built without read_only)
    head = re.sub(r"\s+", "", src[st:calls[0][2]] if calls else src[st:j])
    if not re.fullmatch(r"sqlite_pool::Config::new\(path\.as_ref\(\)\)", head + ("" if head.endswith(")") else "")) and not head.startswith("sqlite_pool::Config::new("):
        failures.append(("read-pool-config-is-read-only", _line(src, st), "ro_pool is not built from a fresh sqlite_pool::Config::new(..): `%s`" % head[:60]))
    mnew = re.search(r"Self::new\(", body)
    if not mnew:
        raise LostAnchor("Self::new( not found")
    op = o + mnew.end() - 1
    args = [a.strip() for a in re.sub(r"\s+", " ", src[op + 1:match_delim(msk, op)]).split(",") if a.strip()]
    if len(args) < 4 or args[2] != "ro_pool" or args[3] != "rw_pool":
        failures.append(("read-pool-is-passed-as-read-argument", _line(src, op), "Self::new arguments are %s" % args))
    # what `read()` / `read_blocking()` hand out comes from the read pool and from nowhere else
    obligations.append("read-connections-come-from-the-read-only-pool-only")
    samples = ["%s:%d ro_pool chain %s" % (file, _line(src, st), names)]
    for fn in ("read", "read_blocking"):
        try:
            s2, m2, o2, c2 = _fn_body(file, fn, u.get("impl"))
        except LostAnchor:
            continue
        b2 = m2[o2:c2]
        if not re.search(r"\bself\s*\.\s*0\s*\.\s*read\s*\.\s*get\s*\(", b2):
            failures.append(("read-connections-come-from-the-read-only-pool-only", _line(s2, o2), "`%s` does not take its connection from `self.0.read`" % fn))
        other = re.search(r"\bself\s*\.\s*0\s*\.\s*(write\w*|\w*tx)\b|\bdedicated\b|\bclient_dedicated\b", b2)
        if other:
            failures.append(("read-connections-come-from-the-read-only-pool-only", _line(s2, o2 + other.start()), "`%s` can hand out a connection that is not from the read-only pool (`%s`)" % (fn, other.group(0))))
        samples.append("%s:%d %s() -> self.0.read.get()" % (file, _line(s2, o2), fn))
    return obligations, failures, samples


def _match_arms(msk, mo, mc):
    """arms of the match block msk[mo..mc] -> [(pattern text, body start, body end)]"""
    arms = []
    j = mo + 1
    start = j
    while j < mc:
        if msk[j] in "([{":
            j = match_delim(msk, j)
        elif msk.startswith("=>", j):
            pat = msk[start:j].strip().lstrip(",").strip()
            k = j + 2
            while k < mc and msk[k].isspace():
                k += 1
            if msk[k] == "{":
                e = match_delim(msk, k) + 1
            else:
                e = k
                while e < mc and msk[e] != ",":
                    if msk[e] in "([{":
                        e = match_delim(msk, e)
                    e += 1
            arms.append((pat, k, e))
            j = e
            start = e
            continue
        j += 1
    return arms


def _offsets(body, pats):
    out = {}
    for name, rx in pats.items():
        out[name] = [m.start() for m in re.finditer(rx, body)]
    return out


def check_local_write_sequence(u):
    """C07: in make_broadcastable_changes the user statements run, then insert_local_changes, then tx.commit() — each `?`-propagated —
    and only then, and only in the `Some(InsertChangesInfo {..})` arm, the bookkeeping snapshot is committed and the broadcast is
    spawned; the `None` arm (request changed nothing) returns no version and does neither."""
    file = u["file"]
    src, msk, o, c = _fn_body(file, u["fn"])
    body = msk[o:c]
    obligations = ["statements-then-bookkeeping-then-commit-in-order", "every-step-before-commit-propagates-errors",
                   "snapshot-committed-only-after-db-commit-and-only-with-a-version", "broadcast-only-after-db-commit-and-only-with-a-version",
                   "no-change-request-returns-no-version"]
    failures = []
    offs = _offsets(body, {"f": r"\bf\(&tx\)\s*\?", "ilc": r"\binsert_local_changes\([^;]*?\)\s*\?", "commit": r"\btx\s*\.\s*commit\(\)",
                           "snap": r"\bbook_writer\s*\.\s*commit_snapshot\(", "bcast": r"\bbroadcast_changes\(", "match": r"\bmatch\s+insert_info\s*\{"})
    for k in ("f", "ilc", "commit", "snap", "bcast", "match"):
        if len(offs[k]) != 1:
            if k in ("f", "ilc"):
                failures.append(("every-step-before-commit-propagates-errors", _line(src, o), "expected exactly one `%s` step with `?` propagation, found %d" % (k, len(offs[k]))))
            else:
                raise LostAnchor("expected exactly one %s site in %s, found %d" % (k, u["fn"], len(offs[k])))
    if failures:
        return obligations, failures, []
    f, ilc, commit, snap, bcast, mt = (offs[k][0] for k in ("f", "ilc", "commit", "snap", "bcast", "match"))
    if not (f < ilc < commit < mt):
        failures.append(("statements-then-bookkeeping-then-commit-in-order", _line(src, o + commit), "order of f(&tx)? / insert_local_changes? / tx.commit() / match insert_info is not the required one"))
    # tx.commit() … ?;  : the statement containing commit must end with `?;`
    j = o + commit
    while j < c and msk[j] != ";":
        if msk[j] in "([{":
            j = match_delim(msk, j)
        j += 1
    if not re.search(r"\?\s*$", msk[o + commit:j]):
        failures.append(("every-step-before-commit-propagates-errors", _line(src, o + commit), "the result of tx.commit() is not `?`-propagated"))
    # arms of `match insert_info`
    mo = o + mt + body[mt:].index("{")
    mc = match_delim(msk, mo)
    arms = _match_arms(msk, mo, mc)
    none_arms = [x for x in arms if re.fullmatch(r"None", x[0])]
    some_arms = [x for x in arms if x[0].startswith("Some")]
    if len(none_arms) != 1 or len(some_arms) != 1 or len(arms) != 2:
        raise LostAnchor("arms of match insert_info not recognised: %s" % [x[0] for x in arms])
    sa, sb = some_arms[0][1], some_arms[0][2]
    if not (sa < o + snap < sb) or o + snap < o + commit:
        failures.append(("snapshot-committed-only-after-db-commit-and-only-with-a-version", _line(src, o + snap), "commit_snapshot is not inside the Some(..) arm after tx.commit()"))
    if not (sa < o + bcast < sb) or not (o + snap < o + bcast):
        failures.append(("broadcast-only-after-db-commit-and-only-with-a-version", _line(src, o + bcast), "broadcast_changes is not inside the Some(..) arm after commit_snapshot"))
    na = re.sub(r"\s+", "", src[none_arms[0][1]:none_arms[0][2]])
    if not re.fullmatch(r"Ok\(\(ret,None,elapsed\)\)", na):
        failures.append(("no-change-request-returns-no-version", _line(src, none_arms[0][1]), "None arm evaluates to `%s`" % na))
    return obligations, failures, ["%s:%d f(&tx)? < insert_local_changes? < tx.commit()? < match{None|Some: commit_snapshot < broadcast}" % (file, _line(src, o + f))]


def check_insert_local_changes(u):
    """C07: insert_local_changes books a version only when the transaction produced changes: the arms of `match version_info` whose
    first component is None evaluate to Ok(None) without touching the bookkeeping; the (Some(last_seq), ts) arm inserts exactly
    db_version..=db_version into a snapshot and returns it."""
    file = u["file"]
    src, msk, o, c = _fn_body(file, u["fn"])
    body = msk[o:c]
    obligations = ["no-change-arms-return-none-and-book-nothing", "changed-arm-books-exactly-its-own-version", "version-comes-from-peek-next-db-version",
                   "in-memory-bookkeeping-not-advanced-inside-the-open-transaction"]
    failures = []
    # insert_local_changes runs INSIDE the caller's write transaction (it takes `tx`): installing the snapshot here would advance the
    # node's own head before COMMIT; a failing COMMIT would then have consumed a version
    for cm in re.finditer(r"\b(commit_snapshot)\s*\(", body):
        failures.append(("in-memory-bookkeeping-not-advanced-inside-the-open-transaction", _line(src, o + cm.start()),
                         "commit_snapshot is called inside insert_local_changes, i.e. before the caller's tx.commit()"))
    m = re.search(r"\bmatch\s+version_info\s*\{", body)
    if not m:
        raise LostAnchor("match version_info not found")
    # "no version" may only be concluded from what THIS transaction wrote to crsql_changes (the version_info query): an earlier shortcut
    # (e.g. on sqlite3_changes(), which only reflects the last statement) would commit changes without booking them
    obligations.append("no-version-is-concluded-only-from-the-transactions-own-change-rows")
    for em in re.finditer(r"\bOk\s*\(\s*None\s*\)", body[:m.start()]):
        failures.append(("no-version-is-concluded-only-from-the-transactions-own-change-rows", _line(src, o + em.start()),
                         "insert_local_changes returns Ok(None) before it has looked at the transaction's rows in crsql_changes"))
    mo = o + m.end() - 1
    mc = match_delim(msk, mo)
    arms = _match_arms(msk, mo, mc)
    if len(arms) < 2:
        raise LostAnchor("arms of match version_info not recognised")
    booked = 0
    for pat, a, b in arms:
        text = msk[a:b]
        first_none = re.match(r"\(\s*None\b", pat) is not None
        touches = re.search(r"\b(insert_db|snapshot|commit_snapshot|insert_partial)\s*\(", text) is not None
        if first_none:
            tail = re.sub(r"\s+", "", re.sub(r"\b(warn|debug|trace|info)!\([^;]*\);", "", src[a:b]))
            if touches or not re.search(r"Ok\(None\)\}?$", tail):
                failures.append(("no-change-arms-return-none-and-book-nothing", _line(src, a), "arm `%s` books a version or does not evaluate to Ok(None)" % pat))
        else:
            booked += 1
            if len(re.findall(r"\binsert_db\s*\(", text)) != 1 or not re.search(r"let\s+db_versions\s*=\s*db_version\s*\.\.=\s*db_version\s*;", text) \
                    or not re.search(r"insert_db\s*\(\s*tx\s*,\s*\[\s*db_versions\s*\]\s*\.into\(\)\s*\)", text):
                failures.append(("changed-arm-books-exactly-its-own-version", _line(src, a), "arm `%s` does not insert exactly db_version..=db_version once" % pat))
    if booked != 1:
        failures.append(("changed-arm-books-exactly-its-own-version", _line(src, mo), "%d arms book a version" % booked))
    pre = src[o:mo]
    if not re.search(r"SELECT crsql_peek_next_db_version\(\)", pre):
        failures.append(("version-comes-from-peek-next-db-version", _line(src, o), "db_version is not read with crsql_peek_next_db_version()"))
    return obligations, failures, ["%s:%d arms: %s" % (file, _line(src, mo), [p for p, _, _ in arms])]


PER_ACTOR_TABLES = ("__corro_buffered_changes", "__corro_seq_bookkeeping", "__corro_bookkeeping_gaps", "crsql_changes", "crsql_db_versions")


def _sql_levels(sql):
    """split a SQL text into nesting levels: returns list of texts, one per parenthesised sub-SELECT (and the top level), each with
    its nested sub-SELECTs blanked out"""
    sql = re.sub(r"--[^\n]*", " ", sql)
    levels = []

    def walk(text):
        out = []
        i = 0
        while i < len(text):
            if text[i] == "(":
                d = 1
                j = i + 1
                while j < len(text) and d:
                    d += text[j] == "("
                    d -= text[j] == ")"
                    j += 1
                inner = text[i + 1:j - 1]
                if re.match(r"\s*SELECT\b", inner, re.I):
                    walk(inner)
                    out.append(" (SUBSELECT) ")
                else:
                    out.append("(" + inner + ")")
                i = j
            else:
                out.append(text[i])
                i += 1
        levels.append(" ".join("".join(out).split()))

    walk(sql)
    return levels


def check_sql_actor_scoping(u):
    """Versions are numbered per origin actor.  Every SQL statement of the file that reads, deletes or updates a per-actor bookkeeping
    table by version (`db_version` in a WHERE level, or `start`/`end` of a gap row) must constrain the actor (site_id / actor_id) at the
    same nesting level — otherwise it mixes the version spaces of different actors."""
    file = u["file"]
    src = open(os.path.join(REPO, file)).read()
    from .lex import iter_string_literals
    obligations, failures, samples = [], [], []
    n = 0
    for (off, text) in iter_string_literals(src):
        if not re.search(r"\b(SELECT|DELETE|UPDATE)\b", text) or not any(t in text for t in PER_ACTOR_TABLES):
            continue
        if re.search(r"\bCREATE\s+(TABLE|INDEX)\b", text, re.I):
            continue
        line = _line(src, off)
        for lvl in _sql_levels(text):
            m = re.search(r"\bWHERE\b(.*)$", lvl, re.I)
            if not m:
                continue
            where = re.split(r"\b(GROUP BY|ORDER BY|LIMIT)\b", m.group(1), flags=re.I)[0]
            vcols = r"\b(db_version|start|end)\b" if "__corro_bookkeeping_gaps" in text else r"\bdb_version\b"
            if not re.search(vcols, where):
                continue
            n += 1
            name = "sql-at-line-%d-level-%d-is-scoped-to-one-actor" % (line, n)
            obligations.append(name)
            samples.append("%s:%d WHERE %s" % (file, line, where.strip()[:90]))
            if not re.search(r"\b(site_id|actor_id)\b", where):
                failures.append((name, line, "a WHERE clause selects by db_version without constraining site_id/actor_id: `%s`" % where.strip()[:120]))
    if not obligations:
        raise LostAnchor("no per-actor SQL statements found in %s" % file)
    return obligations, failures, samples


def check_from_conn(u):
    """C02: BookedVersions::from_conn rebuilds the in-memory view from the persisted records: the head is first read from
    crsql_db_versions, then every persisted partial row is folded in through insert_partial (which can only raise the head), then
    the persisted gap rows are inserted into a snapshot that is committed.  Loading the head AFTER the partials would overwrite
    a head raised by a partially buffered newest version."""
    file = u["file"]
    src, msk, o, c = _fn_body(file, u["fn"], u.get("impl"))
    body = msk[o:c]
    text = src[o:c]
    obligations = ["head-loaded-from-db-before-partials-are-folded-in", "head-assigned-once", "partials-folded-in-through-insert-partial",
                   "gap-rows-loaded-into-a-snapshot-that-is-committed"]
    failures = []
    maxs = [m.start() for m in re.finditer(r"\bbv\s*\.\s*max\s*=[^=]", body)]
    parts = [m.start() for m in re.finditer(r"\bbv\s*\.\s*insert_partial\s*\(", body)]
    snap = [m.start() for m in re.finditer(r"\bbv\s*\.\s*snapshot\s*\(", body)]
    gins = [m.start() for m in re.finditer(r"\bsnap\s*\.\s*needed\s*\.\s*insert\s*\(", body)]
    commit = [m.start() for m in re.finditer(r"\bbv\s*\.\s*commit_snapshot\s*\(\s*snap\s*\)", body)]
    if not maxs or not parts or not snap or not commit:
        raise LostAnchor("from_conn: expected bv.max =, bv.insert_partial(, bv.snapshot(), bv.commit_snapshot(snap)")
    if len(maxs) != 1:
        failures.append(("head-assigned-once", _line(src, o + maxs[-1]), "bv.max is assigned %d times" % len(maxs)))
    if not (maxs[0] < parts[0]):
        failures.append(("head-loaded-from-db-before-partials-are-folded-in", _line(src, o + maxs[0]), "bv.max is assigned from the database after insert_partial has (possibly) raised it"))
    j = o + maxs[0]
    e = j
    while e < c and msk[e] != ";":
        if msk[e] in "([{":
            e = match_delim(msk, e)
        e += 1
    if "crsql_db_versions" not in src[j:e]:
        failures.append(("head-loaded-from-db-before-partials-are-folded-in", _line(src, j), "the head is not read from crsql_db_versions"))
    if "__corro_seq_bookkeeping" not in text[:parts[0]]:
        failures.append(("partials-folded-in-through-insert-partial", _line(src, o + parts[0]), "insert_partial is not fed from __corro_seq_bookkeeping rows"))
    if not gins or not (snap[0] < gins[0] < commit[0]) or "__corro_bookkeeping_gaps" not in text[snap[0]:commit[0]]:
        failures.append(("gap-rows-loaded-into-a-snapshot-that-is-committed", _line(src, o + snap[0]), "gap rows are not inserted into the snapshot between snapshot() and commit_snapshot(snap)"))
    # ---- persisted columns are bound to the fields they describe: `row.get(i)` must read the i-th column of the SELECT it belongs to
    obligations += ["partial-row-columns-bound-to-their-fields", "gap-row-columns-bound-to-their-fields"]
    want = {"__corro_seq_bookkeeping": ("partial-row-columns-bound-to-their-fields",
                                        [(r"let\s+version\s*=\s*row\.get\((\d+)\)", "db_version"),
                                         (r"from_iter\(vec!\[\s*row\.get\((\d+)\)\?\s*\.\.=", "start_seq"),
                                         (r"\.\.=\s*row\.get\((\d+)\)\?\s*\]", "end_seq"),
                                         (r"last_seq:\s*row\.get\((\d+)\)", "last_seq"),
                                         (r"\bts:\s*row\.get\((\d+)\)", "ts")]),
            "__corro_bookkeeping_gaps": ("gap-row-columns-bound-to-their-fields",
                                         [(r"let\s+start_v\s*=\s*row\.get\((\d+)\)", "start"),
                                          (r"let\s+end_v\s*=\s*row\.get\((\d+)\)", "end")])}
    from .lex import iter_string_literals
    lits = [(a, a + len(t), t) for (a, t) in iter_string_literals(src) if o <= a < c and re.search(r"\bSELECT\b", t)]
    for i, (a, b, t) in enumerate(lits):
        nxt = lits[i + 1][0] if i + 1 < len(lits) else c
        for table, (ob, binds) in want.items():
            if table not in t:
                continue
            mm = re.search(r"SELECT\s+(.*?)\s+FROM", t, re.S)
            cols = [x.strip() for x in mm.group(1).split(",")]
            seg = src[b:nxt]
            for rx, col in binds:
                bm = re.search(rx, seg)
                if not bm:
                    raise LostAnchor("from_conn: binding /%s/ not found after the SELECT on %s" % (rx, table))
                idx = int(bm.group(1))
                if idx >= len(cols) or cols[idx] != col:
                    failures.append((ob, _line(src, b + bm.start()), "reads column #%d (`%s`) of `SELECT %s` where `%s` is meant" % (idx, cols[idx] if idx < len(cols) else "?", ", ".join(cols), col)))
    return obligations, failures, ["%s:%d bv.max = … < insert_partial < snapshot < snap.needed.insert < commit_snapshot" % (file, _line(src, o + maxs[0]))]


_PRIM = {"u8": 1, "i8": 1, "bool": 1, "u16": 2, "i16": 2, "u32": 4, "i32": 4, "f32": 4, "char": 4, "u64": 8, "i64": 8, "f64": 8, "usize": 8, "isize": 8, "u128": 16, "i128": 16}


def _split_top(s, sep=","):
    out, depth, cur = [], 0, ""
    for ch in s:
        if ch in "<([":
            depth += 1
        elif ch in ">)]":
            depth -= 1
        if ch == sep and depth == 0:
            out.append(cur)
            cur = ""
        else:
            cur += ch
    if cur.strip():
        out.append(cur)
    return [x.strip() for x in out]


def _vec_elems(ty):
    """element types of every `Vec<…>` / `VecDeque<…>` occurring in the type text (outermost and nested)"""
    out = []
    for m in re.finditer(r"\bVec(?:Deque)?\s*(?:::)?\s*<", ty):
        i = m.end()
        depth = 1
        j = i
        while j < len(ty) and depth:
            if ty[j] == "<":
                depth += 1
            elif ty[j] == ">" and ty[j - 1] != "-":
                depth -= 1
            j += 1
        out.append(ty[i:j - 1].strip())
    return out


def check_speedy_prealloc(u):
    """C09: speedy's `Reader::read_vec` (what `Vec<T>::read_from` and every derived `Vec<T>` field call) reserves `Vec::with_capacity(len)`
    for the wire length `len` after checking only `T::minimum_bytes_needed() * len <= bytes remaining`.  The trait default is 0, so for a
    hand-written `Readable` without an override the reservation is driven by the peer alone (a 32-byte frame reserves 137 GB and aborts).
    Obligation, per `Vec<E>` that speedy itself decodes in the wire types: the minimum encoded size of E is positive."""
    import glob
    files = sorted(glob.glob(os.path.join(REPO, u["dir"], "*.rs")))
    hand = {}       # type -> (file, line, has non-zero override)
    derived = {}    # type -> (file, line, body text)
    aliases = {}    # name -> type text
    vec_sites = []  # (file, line, where, type text)
    for f in files:
        src = open(f).read()
        msk = mask(src)
        rel = os.path.relpath(f, REPO)
        for m in re.finditer(r"\bimpl\s*<[^{;]*?>\s*Readable\s*<[^{;]*?>\s*for\s+(\w+)", msk):
            ob = msk.index("{", m.end())
            cb = match_delim(msk, ob)
            body = msk[ob:cb]
            mm = re.search(r"fn\s+minimum_bytes_needed\s*\(\s*\)\s*->\s*usize\s*\{", body)
            ok = False
            if mm:
                bo = ob + mm.end() - 1
                bc = match_delim(msk, bo)
                val = src[bo + 1:bc].strip()
                ok = not re.fullmatch(r"0(?:usize)?", val) and val != ""
            hand[m.group(1)] = (rel, _line(src, m.start()), ok)
            for vm in re.finditer(r"\bVec\s*::\s*<", body):
                # explicit `Vec::<T>::read_from(reader)` inside a hand-written reader
                seg = body[vm.start():vm.start() + 200]
                if re.match(r"Vec\s*::\s*<[^;]*?>\s*::\s*read_from", seg):
                    vec_sites.append((rel, _line(src, ob + vm.start()), "%s::read_from" % m.group(1), seg[:seg.index("::read_from")] if "::read_from" in seg else seg))
        for m in re.finditer(r"#\[derive\(([^\]]*)\)\]", msk):
            if not re.search(r"\bReadable\b", m.group(1)):
                continue
            im = re.compile(r"\b(struct|enum)\s+(\w+)").search(msk, m.end())
            if not im:
                continue
            k = im.end()
            while msk[k] not in "{(;":
                k += 1
            if msk[k] == ";":
                derived[im.group(2)] = (rel, _line(src, im.start()), "")
                continue
            e = match_delim(msk, k)
            derived[im.group(2)] = (rel, _line(src, im.start()), msk[k + 1:e])
            vec_sites.append((rel, _line(src, im.start()), "derived %s" % im.group(2), msk[k + 1:e]))
        for m in re.finditer(r"\btype\s+(\w+)\s*=\s*([^;]+);", msk):
            aliases[m.group(1)] = m.group(2).strip()
    if not hand or not derived:
        raise LostAnchor("no hand-written / derived speedy Readable found under %s" % u["dir"])
    assumed = set()

    def minb(ty, depth=0):
        ty = ty.strip()
        if depth > 8:
            return 1
        if ty.startswith("(") and ty.endswith(")"):
            return sum(minb(x, depth + 1) for x in _split_top(ty[1:-1]))
        if ty.startswith("["):
            mm = re.match(r"\[\s*(\w+)\s*;\s*(\w+)\s*\]", ty)
            if mm and mm.group(2).isdigit():
                return minb(mm.group(1), depth + 1) * int(mm.group(2))
            assumed.add(ty)
            return 1
        head = re.match(r"(?:\w+\s*::\s*)*(\w+)", ty)
        if not head:
            assumed.add(ty)
            return 1
        h = head.group(1)
        if h in _PRIM:
            return _PRIM[h]
        if h in ("Vec", "VecDeque", "String", "HashMap", "HashSet", "BTreeMap", "BTreeSet", "Cow"):
            return 4
        if h == "Option":
            return 1
        if h == "Box":
            return minb(ty[ty.index("<") + 1:ty.rindex(">")], depth + 1)
        if h in aliases:
            return minb(aliases[h], depth + 1)
        if h in hand:
            return 1 if hand[h][2] else 0
        if h in derived:
            body = derived[h][2]
            return 1 if body.strip() else 0   # derive sums the fields / adds the variant tag: non-empty items are >= 1
        assumed.add(h)
        return 1

    obligations, failures, samples = [], [], []
    seen = set()
    # alias expansion: an alias used as a field of a derived type is decoded by speedy too
    sites = list(vec_sites)
    for name, ty in aliases.items():
        for (rel, ln, where, text) in vec_sites:
            if re.search(r"\b%s\b" % name, text):
                sites.append((rel, ln, "%s via type %s" % (where, name), ty))
    for (rel, ln, where, text) in sites:
        for e in _vec_elems(text):
            key = (where, e)
            if key in seen:
                continue
            seen.add(key)
            name = "vec-element-has-positive-minimum-size:%s:Vec<%s>" % (where.replace(" ", "-"), re.sub(r"\s+", "", e))
            obligations.append(name)
            if minb(e) == 0:
                failures.append((name, ln, "speedy reads Vec<%s> with Vec::with_capacity(wire length) unchecked: minimum_bytes_needed() of the element is 0 "
                                           "(hand-written Readable without a non-zero override)" % e, rel))
            samples.append("%s:%d %s: Vec<%s> minimum element size %s" % (rel, ln, where, e, "> 0" if minb(e) else "== 0"))
    if not obligations:
        raise LostAnchor("no speedy-decoded Vec<…> found")
    u.setdefault("_assumed", sorted(assumed))
    return obligations, failures, samples


def check_offer_loops(u):
    """C10: process_multiple_changes visits every offered changeset: the loops that iterate over the offered changesets
    (`for … in changes`, `for (actor_id, changes) in unknown_changes`) are left only by running to completion or by `return Err`
    (which rolls the transaction back); a `break` would silently abandon the changesets queued behind the current one."""
    file = u["file"]
    src, msk, o, c = _fn_body(file, u["fn"], u.get("impl"))
    loops = []
    for m in re.finditer(r"\b(for\b[^{;]*?\bin\b[^{;]*?|while\b[^{;]*?|loop\s*)\{", msk[o:c]):
        ob = o + m.end() - 1
        loops.append((o + m.start(), ob, match_delim(msk, ob), re.sub(r"\s+", " ", src[o + m.start():ob]).strip()))
    offer = [l for l in loops if re.match(r"for\b.*\bin\s+(changes|unknown_changes)\s*$", l[3])]
    if len(offer) < 2:
        raise LostAnchor("process_multiple_changes: expected the loops `for … in changes` / `for … in unknown_changes`, found %s" % [l[3] for l in loops])
    obligations, failures, samples = [], [], []
    for (ls, ob, cb, hdr) in offer:
        name = "offer-loop-has-no-early-exit:%s" % re.sub(r"[^A-Za-z0-9_]+", "-", hdr).strip("-")
        obligations.append(name)
        for bm in re.finditer(r"\bbreak\b", msk[ob:cb]):
            pos = ob + bm.start()
            inner = max((l for l in loops if l[1] < pos < l[2]), key=lambda l: l[1])
            if inner[1] == ob:
                failures.append((name, _line(src, pos), "`break` leaves the loop over offered changesets: the changesets behind the current one are neither applied, buffered nor reported"))
        # `return Ok(..)` inside the loop would be an early exit too
        for rm in re.finditer(r"\breturn\s+Ok\b", msk[ob:cb]):
            failures.append((name, _line(src, ob + rm.start()), "`return Ok` inside the loop over offered changesets"))
        samples.append("%s:%d `%s {…}`: no break / return Ok at this loop's level" % (file, _line(src, ls), hdr))
    return obligations, failures, samples


def check_single_snapshot(u):
    """C05: handle_need answers one need from ONE database snapshot: a read transaction is opened on the connection before the first
    query and every statement is prepared on it.  Otherwise each query sees its own snapshot, and a version that is applied (and its
    buffered rows cleaned) between the `crsql_changes` query and the gaps/buffered query is declared empty although it holds changes.
    This is the hypothesis "the database functions are fixed during the call" of the Verus unit c05_serve, decided here on the text."""
    from .extract import _receiver_start
    file = u["file"]
    src, msk, o, c = _fn_body(file, u["fn"], u.get("impl"))
    body = msk[o:c]
    obligations = ["read-transaction-opened-on-the-connection-before-the-first-query", "every-statement-is-prepared-on-that-transaction",
                   "connection-not-used-directly-once-the-transaction-is-open"]
    failures = []
    preps = [o + m.start() for m in re.finditer(r"\.\s*(prepare_cached|prepare|query_row|execute|execute_batch)\s*\(", body)]
    if not preps:
        raise LostAnchor("handle_need: no prepare/query calls found")
    txm = re.search(r"\blet\s+(?:mut\s+)?(\w+)\s*(?::[^=;]+)?=\s*(\w+)\s*\.\s*(transaction|transaction_with_behavior|unchecked_transaction)\s*\(", body)
    txname = None
    if not txm:
        failures.append((obligations[0], _line(src, preps[0]), "no `let tx = conn.transaction()` before the first query: every statement runs in its own implicit transaction (own snapshot)"))
    else:
        txname = txm.group(1)
        if o + txm.start() > preps[0]:
            failures.append((obligations[0], _line(src, preps[0]), "a query runs before the read transaction is opened"))
    roots = []
    for p_ in preps:
        try:
            rs = _receiver_start(msk, p_)
        except Unsupported as e:
            raise Unsupported("handle_need: receiver of the call at line %d: %s" % (_line(src, p_), e))
        root = re.match(r"\w+", msk[rs:p_])
        roots.append((p_, root.group(0) if root else "?"))
    stmt_vars = set(m.group(1) for m in re.finditer(r"\blet\s+(?:mut\s+)?(\w+)\s*=\s*%s\s*\.\s*prepare(?:_cached)?\s*\(" % (txname or "tx"), body))
    for p_, root in roots:
        if txname and root != txname and root not in stmt_vars:
            failures.append((obligations[1], _line(src, p_), "statement prepared/run on `%s`, not on the read transaction `%s`" % (root, txname)))
    if txm:
        conn = txm.group(2)
        after = body[txm.end():]
        mm = re.search(r"\b%s\b" % re.escape(conn), after)
        if mm:
            failures.append((obligations[2], _line(src, o + txm.end() + mm.start()), "`%s` is used directly after the transaction was opened" % conn))
    return obligations, failures, ["%s:%d `%s`; %d prepare/query calls rooted at it" % (file, _line(src, o + (txm.start() if txm else 0)), src[o + txm.start():o + txm.end()] + "…)" if txm else "?", len(preps))]


def check_sub_lag_stops(u):
    """C12: "when continuity cannot be provided the stream stops … instead of continuing past a gap".  The two places where the server
    learns that it lost live events: (a) forward_sub_to_sender's `Err(RecvError::Lagged(..))` arm (the broadcast receiver overflowed)
    must leave the forwarding loop; (b) the buffering task of catch_up_sub must give up (return Err) when `queue_tx.try_send` fails
    (more live events than the buffer holds) — that Err is turned into an error event by the `queue_task.await` arms."""
    file = u["file"]
    obligations = ["lagged-broadcast-receiver-stops-the-stream", "overflowing-catch-up-buffer-stops-the-stream", "buffer-task-failure-is-reported-and-stops"]
    failures = []
    samples = []
    # (a)
    src, msk, o, c = _fn_body(file, "forward_sub_to_sender")
    m = re.search(r"Err\s*\(\s*RecvError\s*::\s*Lagged\s*\([^)]*\)\s*\)\s*=>", msk[o:c])
    if not m:
        raise LostAnchor("forward_sub_to_sender: no `Err(RecvError::Lagged(..)) =>` arm")
    k = o + m.end()
    while msk[k].isspace():
        k += 1
    if msk[k] != "{":
        raise Unsupported("Lagged arm is not a block")
    e = match_delim(msk, k)
    if not re.search(r"\breturn\b", msk[k:e]):
        failures.append((obligations[0], _line(src, k), "the Lagged arm does not return: the stream would continue past the skipped events"))
    samples.append("%s:%d Lagged arm returns" % (file, _line(src, k)))
    # (b)
    src, msk, o, c = _fn_body(file, "catch_up_sub")
    m = re.search(r"queue_tx\s*\.\s*try_send\s*\(", msk[o:c])
    if not m:
        raise LostAnchor("catch_up_sub: no queue_tx.try_send(")
    # the enclosing `if … let Err(_) = queue_tx.try_send(..) { … }` block
    k = o + m.end() - 1
    k = match_delim(msk, k) + 1
    while k < c and msk[k] != "{":
        k += 1
    e = match_delim(msk, k)
    if not re.search(r"\breturn\s+Err\b", msk[k:e]):
        failures.append((obligations[1], _line(src, k), "a failed try_send on the catch-up buffer does not end the buffering task with an error"))
    # … for EVERY failure of try_send (Full as well as Closed): the pattern bound to its result has to be a catch-all
    hdr_start = msk.rfind("if", o, o + m.start())
    seg_end = o + m.start()
    errs = [hdr_start + mm.start() for mm in re.finditer(r"\bErr\s*\(", msk[hdr_start:seg_end])]
    eo = errs[-1] if errs else -1
    if eo >= 0:
        po = msk.index("(", eo)
        pc = match_delim(msk, po)
        pat = re.sub(r"\s+", "", msk[po + 1:pc])
        if re.match(r"\s*=\s*queue_tx", msk[pc + 1:]) and not re.fullmatch(r"_\w*|[a-z]\w*", pat):
            failures.append((obligations[1], _line(src, eo), "only `Err(%s)` of try_send ends the buffering task: a FULL buffer now drops the live event silently and buffering carries on" % pat))
    samples.append("%s:%d try_send failure returns Err" % (file, _line(src, k)))
    m = re.search(r"match\s+queue_task\s*\.\s*await\s*\{", msk[o:c])
    if not m:
        raise LostAnchor("catch_up_sub: no `match queue_task.await {`")
    mo = o + m.end() - 1
    mc = match_delim(msk, mo)
    for pat, bs, be in _match_arms(msk, mo, mc):
        if re.match(r"Ok\s*\(\s*Ok\b", pat):
            continue
        if not (re.search(r"\breturn\b", msk[bs:be]) and re.search(r"error_to_query_event_bytes_with_meta", msk[bs:be])):
            failures.append((obligations[2], _line(src, bs), "arm `%s` of `match queue_task.await` does not send an error event and return" % pat))
    # (b') the same buffering task reads the live feed from a broadcast receiver: if that receiver itself lagged (more events than the
    #      broadcast buffer between two polls of the task) the events are gone — the task must give up with an error as well, instead
    #      of swallowing the Lagged error (a refutable `Ok(res) = sub_rx.recv()` select pattern does exactly that)
    obligations.append("lagged-receiver-during-catch-up-stops-the-stream")
    src, msk, o, c = _fn_body(file, "catch_up_sub")
    mt = re.search(r"queue_tx\s*\.\s*try_send\s*\(", msk[o:c])
    # the enclosing spawned block: from the nearest preceding `tokio::spawn(` to its closing paren
    sp = msk.rfind("tokio::spawn(", o, o + mt.start())
    if sp < 0:
        raise LostAnchor("catch_up_sub: buffering task (tokio::spawn … queue_tx.try_send) not found")
    se = match_delim(msk, sp + len("tokio::spawn"))
    task = msk[sp:se]
    ml = re.search(r"RecvError\s*::\s*Lagged\s*\([^)]*\)\s*\)?\s*=>", task)
    if not ml:
        failures.append(("lagged-receiver-during-catch-up-stops-the-stream", _line(src, sp),
                         "the buffering task of catch_up_sub never looks at RecvError::Lagged: a lagged receiver is silently skipped and forwarding later resumes past the lost events"))
    else:
        k = sp + ml.end()
        while msk[k].isspace():
            k += 1
        e = match_delim(msk, k) if msk[k] == "{" else msk.index(",", k)
        if not re.search(r"\breturn\s+Err\b", msk[k:e]):
            failures.append(("lagged-receiver-during-catch-up-stops-the-stream", _line(src, k), "the Lagged arm of the buffering task does not return an error"))
    samples.append("%s:%d buffering task handles RecvError::Lagged" % (file, _line(src, sp)))
    # (c) the snapshot rows and the change id they are valid for are read in ONE read transaction (all_rows runs two statements: the row scan
    #     and `SELECT MAX(id) FROM changes`); otherwise a change committed during the scan is covered by the end-of-query id but not by the rows
    obligations.append("snapshot-rows-and-their-change-id-read-in-one-transaction")
    src, msk, o, c = _fn_body(file, "catch_up_sub_anew")
    ma = re.search(r"\.\s*all_rows\s*\(\s*&\s*(\w+)\s*,", msk[o:c])
    if not ma:
        raise LostAnchor("catch_up_sub_anew: no `.all_rows(&<conn>, …)` call")
    var = ma.group(1)
    if not re.search(r"\blet\s+(?:mut\s+)?%s\s*=\s*\w+\s*\.\s*(transaction|unchecked_transaction|transaction_with_behavior)\s*\(" % re.escape(var), msk[o:o + ma.start()]):
        failures.append(("snapshot-rows-and-their-change-id-read-in-one-transaction", _line(src, o + ma.start()),
                         "all_rows is given `%s`, which is not a transaction opened in catch_up_sub_anew: its two statements can see different states" % var))
    samples.append("%s:%d all_rows(&%s) inside a transaction" % (file, _line(src, o + ma.start()), var))
    return obligations, failures, samples


EXITS_DIR = os.path.join(os.path.dirname(os.path.dirname(os.path.abspath(__file__))), "exits")


def _uncovered_exits(templates):
    """For every repository function of which some template extracts FRAGMENTS: the early exits (`continue` / `break` / `return`) of that
    function which lie outside every extracted span, keyed by the header of the innermost enclosing block (line-number independent)."""
    from . import extract
    import tempfile
    spans = {}
    whole = set()
    for t in templates:
        with tempfile.NamedTemporaryFile("w", suffix=".rs", delete=True) as tmp:
            report, _lm = extract.render(os.path.join(os.path.dirname(EXITS_DIR), t), tmp.name)
        for r in report:
            if r.get("mode") == "fragment":
                spans.setdefault((r["file"], r.get("impl"), r["fn"], r.get("nth", 1)), []).append(tuple(r["span"]))
            elif r.get("mode") == "body":
                # the whole function is under contract in some unit: every exit of it is inside a span by definition
                whole.add((r["file"], r["item"].split("fn ")[-1].strip()))
    out = {}
    for (file, impl, fn, nth), sp in sorted(spans.items(), key=lambda kv: (kv[0][0], kv[0][2])):
        if (file, fn) in whole and not impl:
            out["%s::%s" % (file, fn)] = []
            continue
        src = open(os.path.join(REPO, file)).read()
        msk = mask(src)
        lo, hi = 0, len(src)
        if impl:
            cands = list(find_impls(src, msk, impl))
            if not cands:
                raise LostAnchor("impl /%s/ not found in %s" % (impl, file))
            got = None
            for (s_, o_, c_) in cands:
                try:
                    got = find_fn(src, msk, fn, o_ + 1, c_, nth)
                    break
                except LostAnchor:
                    continue
            if not got:
                raise LostAnchor("fn %s not found" % fn)
            s0, o, c = got
        else:
            s0, o, c = find_fn(src, msk, fn, lo, hi, nth)
        keys = []
        for m in re.finditer(r"\b(continue|break|return)\b", msk[o:c]):
            pos = o + m.start()
            if any(a <= pos < b for (a, b) in sp):
                continue
            # innermost enclosing `{`
            depth = 0
            k = pos
            while k > o:
                k -= 1
                ch = msk[k]
                if ch == "}":
                    depth += 1
                elif ch == "{":
                    if depth == 0:
                        break
                    depth -= 1
            # header = text from the previous `;`, `{` or `}` to this `{`
            h = k
            while h > o and msk[h - 1] not in ";{}":
                h -= 1
            header = re.sub(r"\s+", " ", msk[h:k]).strip()
            stmt_end = pos
            while stmt_end < c and msk[stmt_end] not in ";,}":
                stmt_end += 1
            keys.append(("%s :: %s" % (header[-160:], re.sub(r"\s+", " ", msk[pos:stmt_end]).strip()[:80]), src.count("\n", 0, pos) + 1))
        out["%s::%s" % (file, fn)] = keys
    return out


def check_exits_covered(u):
    """Composition guard for fragment-based units: a property argued fragment by fragment only composes if the control flow between the
    fragments is what it was when the fragments were chosen.  Obligation per function: every early exit outside the spans under contract
    is one recorded in the committed baseline /verif/exits/<unit>.json.  A NEW early exit outside every span is *not* a violation (it may be
    harmless) — it makes this unit undecided (exit 2), so that such an edit is never reported as verified."""
    import json
    base_path = os.path.join(EXITS_DIR, u["name"] + ".json")
    if not os.path.exists(base_path):
        raise LostAnchor("no committed baseline %s" % base_path)
    base = json.load(open(base_path))
    cur = _uncovered_exits(u["templates"])
    obligations, samples = [], []
    for fnkey, keys in cur.items():
        name = "no-new-early-exit-outside-the-spans-under-contract:%s" % fnkey.split("/")[-1]
        obligations.append(name)
        allowed = list(base.get(fnkey, []))
        for k, ln in keys:
            if k in allowed:
                allowed.remove(k)
            else:
                raise Unsupported("%s:%d: early exit `%s` lies outside every span under contract and is not in the baseline — the per-fragment argument "
                                  "no longer covers this function's control flow (undecided, not a violation)" % (fnkey.split("::")[0], ln, k))
        samples.append("%s: %d early exits outside the spans, all in the baseline" % (fnkey, len(keys)))
    if not obligations:
        raise LostAnchor("no fragment extraction found in %s" % u["templates"])
    return obligations, [], samples


def check_seq_range_guard(u):
    """C10: the `seqs` range of a Changeset::Full comes off the wire unchecked (the decoders accept any start/end).  rangemap asserts
    start <= end on insert/remove, so handle_changes must pass over an inverted range BEFORE it touches the seen-cache or the queue —
    otherwise one malformed changeset panics the ingest task and nothing offered afterwards is ever applied.  (This is the precondition
    "seq ranges well-ordered" of the Verus fragments F10.1/F10.3, decided here on the text.)"""
    file = u["file"]
    src, msk, o, c = _fn_body(file, u["fn"])
    body = msk[o:c]
    obligations = ["inverted-seq-range-skipped-before-the-seen-cache-is-touched"]
    failures = []
    first_mut = re.search(r"\bseen\s*\.\s*entry\s*\(|\bqueue\s*\.\s*push_back\s*\(", body)
    if not first_mut:
        raise LostAnchor("handle_changes: no seen.entry( / queue.push_back( found")
    guard = None
    for m in re.finditer(r"\bif\b", body[:first_mut.start()]):
        k = m.end()
        while k < len(body) and body[k] != "{":
            if body[k] in "([":
                k = match_delim(body, k)
            k += 1
        cond = re.sub(r"[\s\*\(\)&]", "", body[m.end():k])
        if re.search(r"seqs\.end<seqs\.start|seqs\.start>seqs\.end", cond):
            e = match_delim(body, k)
            if re.search(r"\bcontinue\b", body[k:e]):
                guard = o + m.start()
                break
    if guard is None:
        failures.append((obligations[0], _line(src, o + first_mut.start()),
                         "no `if … seqs.end() < seqs.start() { … continue }` before the first use of the seen-cache/queue: an inverted range reaches "
                         "RangeInclusiveSet::extend/remove, whose assert panics the ingest task"))
    return obligations, failures, ["%s:%d guard on inverted seq ranges precedes line %d" % (file, _line(src, guard) if guard else 0, _line(src, o + first_mut.start()))]


def check_schema_ddl(u):
    """C15: apply_schema never executes destructive DDL.  The only `DROP TABLE` / `RENAME TO` statements of the function sit in the
    else-branch of `if changed_cols.is_empty()`, which is unreachable because `if !changed_cols.is_empty() { return Err(..) }` precedes it
    in the same block with no reassignment in between.  Every other statement text is CREATE TABLE/INDEX, ALTER TABLE … ADD COLUMN,
    DROP INDEX (indexes may be dropped) or a crsql_* call."""
    from .lex import iter_string_literals
    file = u["file"]
    src, msk, o, c = _fn_body(file, u["fn"])
    obligations = ["destructive-ddl-only-in-the-branch-closed-by-the-changed-columns-guard", "no-other-destructive-statement-text"]
    failures = []
    # "an existing column's definition is unchanged" is decided with `new_col != col`: that comparison has to be the derived, field-wise one
    # (it includes the raw definition text); a hand-written PartialEq that skips a field lets an edit of that field through
    obligations.append("column-equality-is-the-derived-field-wise-one")
    whole = open(os.path.join(REPO, file)).read()
    wm = mask(whole)
    dm = re.search(r"#\[derive\(([^\]]*)\)\]\s*pub\s+struct\s+Column\b", wm)
    if not dm:
        raise LostAnchor("struct Column with a derive list not found in %s" % file)
    if not re.search(r"\bPartialEq\b", dm.group(1)) or re.search(r"\bimpl\s+(?:<[^>]*>\s*)?(?:std::cmp::|core::cmp::)?PartialEq\b[^{]*\bfor\s+Column\b", wm):
        failures.append(("column-equality-is-the-derived-field-wise-one", _line(whole, dm.start()), "Column's PartialEq is hand-written (or missing from the derive list): equality may ignore part of the definition"))
    lits = [(a, t) for (a, t) in iter_string_literals(src) if o <= a < c]
    destructive = [(a, t) for (a, t) in lits if re.search(r"\bDROP\s+TABLE\b|\bRENAME\s+TO\b|\bDROP\s+COLUMN\b|\bDELETE\s+FROM\b|\bRENAME\s+COLUMN\b", t, re.I)]
    g = re.search(r"\bif\s*!\s*changed_cols\s*\.\s*is_empty\s*\(\s*\)\s*\{", msk[o:c])
    e = re.search(r"\bif\s+changed_cols\s*\.\s*is_empty\s*\(\s*\)\s*\{", msk[o:c])
    if not g or not e:
        if destructive:
            raise LostAnchor("apply_schema: the changed_cols guard / branch was not found but destructive statement texts exist")
        return obligations, failures, ["%s: no destructive statement text at all" % file]
    gb = o + g.end() - 1
    ge = match_delim(msk, gb)
    if not re.search(r"\breturn\s+Err\b", msk[gb:ge]) or o + e.start() < ge:
        raise LostAnchor("apply_schema: `if !changed_cols.is_empty() { return Err … }` does not precede `if changed_cols.is_empty()`")
    if re.search(r"\bchanged_cols\s*=[^=]|&mut\s+changed_cols|changed_cols\s*\.\s*(insert|remove|clear|retain|drain|extend)\b", msk[ge:o + e.start()]):
        failures.append((obligations[0], _line(src, ge), "changed_cols is modified between the guard and the branch"))
    tb = o + e.end() - 1
    te = match_delim(msk, tb)
    me = re.match(r"\s*else\s*\{", msk[te + 1:])
    else_span = None
    if me:
        eb = te + 1 + me.end() - 1
        else_span = (eb, match_delim(msk, eb))
    for a, t in destructive:
        if else_span and else_span[0] < a < else_span[1]:
            continue
        failures.append((obligations[1] if else_span else obligations[0], _line(src, a), "destructive statement text `%s` outside the unreachable branch" % " ".join(t.split())[:80]))
    return obligations, failures, ["%s:%d guard; %d destructive statement texts, all inside the else-branch at line %d" % (file, _line(src, gb), len(destructive), _line(src, else_span[0]) if else_span else 0)]


def check_schema_atomic(u):
    """C15: execute_schema applies a schema change atomically and only replaces the schema the node works with after the commit:
    the candidate schema is a clone of the current one with the submitted tables inserted (never removed), it is constrained before any
    SQL runs, apply_schema and the __corro_schema refresh run inside one immediate transaction that is committed with `?`, and
    `*schema_write = new_schema` comes after `apply_res?` (so any error leaves both the database — rolled back on drop — and the
    in-memory schema as they were)."""
    file = u["file"]
    src, msk, o, c = _fn_body(file, u["fn"])
    body = msk[o:c]
    obligations = ["candidate-schema-only-gains-tables", "constrained-before-any-sql", "applied-inside-one-immediate-transaction-committed-with-?",
                   "in-memory-schema-replaced-only-after-successful-commit", "schema-write-lock-held-across-the-change"]
    failures = []
    def pos(rx):
        m = re.search(rx, body)
        return (o + m.start()) if m else None
    p_lock = pos(r"agent\s*\.\s*schema\s*\(\s*\)\s*\.\s*write\s*\(")
    p_clone = pos(r"schema_write\s*\.\s*clone\s*\(")
    p_ins = pos(r"schema\s*\.\s*tables\s*\.\s*insert\s*\(")
    p_constrain = pos(r"new_schema\s*\.\s*constrain\s*\(\s*\)\s*\?")
    p_tx = pos(r"conn\s*\.\s*immediate_transaction\s*\(\s*\)\s*\?")
    p_apply = pos(r"apply_schema\s*\(\s*&tx\s*,\s*&schema_write\s*,\s*&mut\s+new_schema\s*\)\s*\?")
    p_commit = pos(r"tx\s*\.\s*commit\s*\(\s*\)\s*\?")
    p_res = pos(r"apply_res\s*\?\s*;")
    p_assign = pos(r"\*\s*schema_write\s*=\s*new_schema\s*;")
    need = dict(lock=p_lock, clone=p_clone, insert=p_ins, constrain=p_constrain, tx=p_tx, apply=p_apply, commit=p_commit, res=p_res, assign=p_assign)
    missing = [k for k, v in need.items() if v is None]
    if missing:
        # a missing `?`-propagated step is a violation of the corresponding obligation, a missing anchor of the function is undecided
        if set(missing) & {"lock", "clone", "tx", "assign", "apply"}:
            raise LostAnchor("execute_schema: anchors not found: %s" % missing)
    if re.search(r"\b(new_schema|schema)\s*\.\s*tables\s*\.\s*(remove|swap_remove|shift_remove|retain|clear|drain)\s*\(", body):
        failures.append((obligations[0], _line(src, o), "the candidate schema loses tables in execute_schema"))
    if p_ins is None:
        failures.append((obligations[0], _line(src, o), "submitted tables are not inserted into the clone of the current schema"))
    if p_constrain is None or not (p_constrain < p_tx):
        failures.append((obligations[1], _line(src, p_tx), "new_schema.constrain()? does not precede the transaction"))
    if p_commit is None or not (p_tx < p_apply < p_commit):
        failures.append((obligations[2], _line(src, p_apply), "apply_schema is not between immediate_transaction()? and tx.commit()?"))
    if p_res is None or not (p_commit is not None and p_commit < p_res < p_assign):
        failures.append((obligations[3], _line(src, p_assign), "`*schema_write = new_schema` is not dominated by `apply_res?` after the commit"))
    if len(re.findall(r"\*\s*schema_write\s*=", body)) != 1:
        failures.append((obligations[3], _line(src, p_assign), "the in-memory schema is assigned more than once"))
    if not (p_lock < p_clone and p_lock < p_tx):
        failures.append((obligations[4], _line(src, p_lock), "the schema write lock is not taken before the candidate is built and applied"))
    # the persisted copy of the schema (what init_schema reloads after a restart) is refreshed wholesale for every submitted table:
    # the old rows are deleted before the current sqlite_schema rows are copied, inside the same transaction — a bare INSERT OR REPLACE
    # would leave the rows of dropped indexes behind
    obligations.append("persisted-schema-rows-of-submitted-tables-are-replaced-wholesale")
    from .lex import iter_string_literals
    lits = [(a, t) for (a, t) in iter_string_literals(src) if o <= a < c and "__corro_schema" in t]
    dels = [(a, re.search(r"WHERE\s+(\w+)\s*=\s*\?", t, re.I)) for (a, t) in lits if re.search(r"^\s*DELETE\s+FROM\s+__corro_schema\b", t, re.I)]
    inss = [(a, re.search(r"\bWHERE\s+(\w+)\s*=\s*\?", t, re.I)) for (a, t) in lits if re.search(r"^\s*INSERT\s+(OR\s+\w+\s+)?INTO\s+__corro_schema\s+SELECT\b.*\bFROM\s+sqlite_schema\b", t, re.I | re.S)]
    if not inss:
        raise LostAnchor("execute_schema: the __corro_schema refresh INSERT … SELECT … FROM sqlite_schema was not found")
    if not dels or not (p_apply < dels[0][0] < inss[0][0] < (p_commit or c)):
        failures.append((obligations[-1], _line(src, inss[0][0]), "the rows of a submitted table are not deleted from __corro_schema before the current ones are copied (between apply_schema and commit): rows of dropped indexes survive and are reloaded after a restart"))
    else:
        dk = dels[0][1].group(1).lower() if dels[0][1] else None
        ik = inss[0][1].group(1).lower() if inss[0][1] else None
        if dk != "tbl_name" or ik != "tbl_name":
            failures.append((obligations[-1], _line(src, inss[0][0]), "rows are deleted by `%s = ?` and re-copied by `%s = ?`: both have to select the submitted table's own rows and its indexes (`tbl_name = ?`), otherwise index rows are lost or left behind" % (dk, ik)))
    return obligations, failures, ["%s:%d lock < clone+insert < constrain? < immediate_transaction? < apply_schema? < DELETE+INSERT __corro_schema < commit? < apply_res? < *schema_write = new_schema" % (file, _line(src, p_lock))]


def check_cluster_id_fresh(u):
    """C16: the node's own cluster id can change at runtime (admin `cluster set-id` -> Agent::set_cluster_id).  Every decision that compares
    a peer's / member's / frame's cluster id with OURS must read `agent.cluster_id()` when it decides, not a copy taken when a connection
    was accepted or a loop was entered — otherwise a node that moved to another cluster keeps applying (or sending) across the boundary."""
    obligations = ["uni-handler-is-not-given-a-copy-of-the-cluster-id-at-accept-time", "uni-handler-compares-with-a-value-obtained-per-frame",
                   "broadcast-loop-does-not-copy-the-cluster-id-before-the-loop"]
    failures, samples = [], []
    # (1) call site of the uni handler
    f1 = "crates/klukai-agent/src/agent/handlers.rs"
    src, msk, o, c = _fn_body(f1, "spawn_incoming_connection_handlers")
    m = re.search(r"spawn_unipayload_handler\w*\s*\(", msk[o:c])
    if not m:
        raise LostAnchor("spawn_incoming_connection_handlers: call of spawn_unipayload_handler* not found")
    ao = o + m.end() - 1
    ac = match_delim(msk, ao)
    # top-level arguments
    args, depth, st = [], 0, ao + 1
    for k in range(ao + 1, ac):
        ch = msk[k]
        if ch in "([{":
            depth += 1
        elif ch in ")]}":
            depth -= 1
        elif ch == "," and depth == 0:
            args.append((st, k))
            st = k + 1
    if msk[st:ac].strip():
        args.append((st, ac))
    for (a, b) in args:
        if re.fullmatch(r"\s*agent\s*\.\s*cluster_id\s*\(\s*\)\s*", msk[a:b]):
            failures.append((obligations[0], _line(src, a), "`agent.cluster_id()` is evaluated once when the connection is accepted and handed to the uni handler by value", f1))
    samples.append("%s:%d uni handler call site" % (f1, _line(src, ao)))
    # (2) the comparison inside the uni handler
    f2 = "crates/klukai-agent/src/agent/uni.rs"
    src2 = open(os.path.join(REPO, f2)).read()
    msk2 = mask(src2)
    cm = re.search(r"\bif\s+([^{;]*?)\s*!=\s*payload_cluster_id\s*\{|\bif\s+payload_cluster_id\s*!=\s*([^{;]*?)\s*\{", msk2)
    if not cm:
        raise LostAnchor("uni.rs: comparison with payload_cluster_id not found")
    ours = (cm.group(1) or cm.group(2)).strip()
    if not re.search(r"\(\s*\)\s*$", ours):
        failures.append((obligations[1], _line(src2, cm.start()), "the frame's cluster id is compared with `%s`, a value fixed for the life of the connection" % ours, f2))
    samples.append("%s:%d compares payload_cluster_id with `%s`" % (f2, _line(src2, cm.start()), ours))
    # (3) the broadcast loop
    f3 = "crates/klukai-agent/src/broadcast/mod.rs"
    src3, msk3, o3, c3 = _fn_body(f3, "handle_broadcasts")
    lp = re.search(r"\bloop\s*\{", msk3[o3:c3])
    if not lp:
        raise LostAnchor("handle_broadcasts: main loop not found")
    pre = msk3[o3:o3 + lp.start()]
    bm = re.search(r"\blet\s+(?:mut\s+)?\w+\s*(?::[^=;]+)?=\s*agent\s*\.\s*cluster_id\s*\(\s*\)", pre)
    if bm:
        failures.append((obligations[2], _line(src3, o3 + bm.start()), "the cluster id is copied into a local before the broadcast loop and never re-read", f3))
    n_calls = len(re.findall(r"agent\s*\.\s*cluster_id\s*\(\s*\)", msk3[o3 + lp.start():c3]))
    samples.append("%s:%d %d reads of agent.cluster_id() inside the loop, none bound before it" % (f3, _line(src3, o3 + lp.start()), n_calls))
    return obligations, failures, samples


def check_schema_reload(u):
    """C15: "after a restart the node works with the same schema it had before".  init_schema rebuilds the schema from the rows of
    __corro_schema; it collects `(key, sql)` pairs into a HashMap before concatenating the `sql` texts, so a row is lost whenever two rows
    share the key.  The key must therefore be the object name (`name`: SQLite object names are unique), not the table name (shared by a
    table's indexes) or the type."""
    from .lex import iter_string_literals
    file = u["file"]
    src, msk, o, c = _fn_body(file, u["fn"])
    obligations, failures, samples = [], [], []
    lits = [(a, t) for (a, t) in iter_string_literals(src) if o <= a < c and "__corro_schema" in t]
    if not lits:
        raise LostAnchor("init_schema: no query on __corro_schema")
    for a, t in lits:
        mm = re.search(r"SELECT\s+(.*?)\s+FROM\s+__corro_schema(.*)", t, re.S | re.I)
        if not mm:
            raise Unsupported("init_schema: query shape not recognised: %s" % t[:60])
        cols = [x.strip() for x in mm.group(1).split(",")]
        kind = re.search(r'type\s*=\s*"?\'?(\w+)', mm.group(2))
        name = "reload-of-%s-rows-is-keyed-by-the-unique-object-name" % (kind.group(1) if kind else "schema")
        obligations.append(name)
        stmt_end = a
        while stmt_end < c and msk[stmt_end] != ";":
            if msk[stmt_end] in "([{":
                stmt_end = match_delim(msk, stmt_end)
            stmt_end += 1
        collected_into_map = re.search(r"\bHashMap\b|\bBTreeMap\b|\bIndexMap\b", src[src.rfind("let", o, a):stmt_end]) is not None
        if collected_into_map and cols[0] != "name":
            failures.append((name, _line(src, a), "rows are collected into a map keyed by `%s`, which several rows can share: all but one of them are dropped from the reloaded schema" % cols[0]))
        if "sql" not in cols:
            failures.append((name, _line(src, a), "the statement text column `sql` is not selected"))
        samples.append("%s:%d SELECT %s … keyed by `%s`" % (file, _line(src, a), ", ".join(cols), cols[0]))
    return obligations, failures, samples


def check_persist_before_publish(u):
    """C02 "a version is never advertised as held unless the transaction that stored it committed": in the functions that book remote
    versions, the bookkeeping rows are written (`insert_db`) before `tx.commit()`, the commit's failure is propagated (`?`), and only then
    is the in-memory view advanced (`commit_snapshot`, `insert_partial`)."""
    file = u["file"]
    obligations, failures, samples = [], [], []
    for fn in u["fns"]:
        src, msk, o, c = _fn_body(file, fn)
        body = msk[o:c]
        ins = [o + m.start() for m in re.finditer(r"\.\s*insert_db\s*\(", body)]
        com = [o + m.start() for m in re.finditer(r"\btx\s*\.\s*commit\s*\(\s*\)", body)]
        pub = [o + m.start() for m in re.finditer(r"\.\s*(commit_snapshot|insert_partial)\s*\(", body)]
        if not ins or not com or not pub:
            raise LostAnchor("%s: expected insert_db(, tx.commit(), commit_snapshot(/insert_partial(" % fn)
        n1 = "bookkeeping-rows-written-before-the-commit:%s" % fn
        n2 = "commit-failure-propagates:%s" % fn
        n3 = "in-memory-view-advanced-only-after-the-commit:%s" % fn
        obligations += [n1, n2, n3]
        if len(com) != 1:
            failures.append((n2, _line(src, com[-1]), "%d tx.commit() calls" % len(com)))
        cpos = com[0]
        if not all(i < cpos for i in ins):
            failures.append((n1, _line(src, max(ins)), "insert_db after tx.commit(): the gap rows of this batch would not be part of the transaction"))
        e = cpos
        while e < c and msk[e] != ";":
            if msk[e] in "([{":
                e = match_delim(msk, e)
            e += 1
        if not re.search(r"\?\s*$", msk[cpos:e]):
            failures.append((n2, _line(src, cpos), "the result of tx.commit() is not propagated with `?`"))
        early = [p_ for p_ in pub if p_ < cpos]
        if early:
            failures.append((n3, _line(src, early[0]), "the in-memory bookkeeping is advanced before tx.commit()"))
        samples.append("%s:%d %s: insert_db < tx.commit()? < commit_snapshot/insert_partial" % (file, _line(src, cpos), fn))
    return obligations, failures, samples


def check_chunker_ranges(u):
    """C05/C03/C08: what a sync server SENDS for a range is framed by ChunkedChanges::new(rows, start, end, …): the chunker labels its chunks
    with ranges tiling start..=end and its contract (proved in unit c08_chunker) assumes the rows lie inside start..=end.  So at every
    construction site in handle_need the (start, end) handed to the chunker must be the very expressions the rows were selected with
    (`seq BETWEEN :start AND :end`), or (seq 0, the version's last_seq) where all rows of the version are selected.  A wider label makes
    the receiver record seqs it never received; a narrower one hides rows."""
    file = u["file"]
    src, msk, o, c = _fn_body(file, u["fn"])
    body = msk[o:c]
    sites = [o + m.end() - 1 for m in re.finditer(r"ChunkedChanges\s*::\s*new\s*\(", body)]
    if len(sites) < u.get("min_sites", 2):
        raise LostAnchor("%s: ChunkedChanges::new call sites not found" % u["fn"])
    def norm(x):
        return re.sub(r"[\s\*&]", "", x)
    obligations, failures, samples = [], [], []
    for k, ao in enumerate(sites):
        ac = match_delim(msk, ao)
        args, depth, st = [], 0, ao + 1
        for i in range(ao + 1, ac):
            ch = msk[i]
            if ch in "([{":
                depth += 1
            elif ch in ")]}":
                depth -= 1
            elif ch == "," and depth == 0:
                args.append(src[st:i])
                st = i + 1
        if src[st:ac].strip():
            args.append(src[st:ac])
        if len(args) < 3:
            raise Unsupported("ChunkedChanges::new with %d arguments" % len(args))
        name = "chunker-labels-exactly-the-selected-seq-range:site-%d" % (k + 1)
        obligations.append(name)
        # the query the rows come from: nearest preceding query_map( … ) before this site
        qm = [m for m in re.finditer(r"\.\s*query_map\s*\(", msk[o:ao])]
        if not qm:
            raise LostAnchor("no query_map before ChunkedChanges::new site %d" % (k + 1))
        qo = o + qm[-1].end() - 1
        qc = match_delim(msk, qo)
        qtext = src[qo:qc]
        ps = dict((m.group(1), norm(m.group(2))) for m in re.finditer(r'":(\w+)"\s*:\s*([^,\n}]+)', qtext))
        lo = ps.get("start_seq", ps.get("start"))
        hi = ps.get("end_seq", ps.get("end"))
        a, b = norm(args[1]), norm(args[2])
        # the SELECT the rows come from must bound seq on BOTH sides by those parameters (or not at all: whole version)
        from .lex import iter_string_literals
        sel = [(p_, t_) for (p_, t_) in iter_string_literals(src) if o <= p_ < qo and re.search(r"\bSELECT\b", t_)]
        if not sel:
            raise LostAnchor("no SELECT text before ChunkedChanges::new site %d" % (k + 1))
        seltext = sel[-1][1]
        bt = re.search(r"\bseq\s+BETWEEN\s+:(\w+)\s+AND\s+:(\w+)", seltext, re.I)
        seq_mentions = len(re.findall(r"\bseq\s*(?:BETWEEN|[<>=!]|IN\b|NOT\b)", seltext, re.I))
        if (lo is None) != (hi is None) or (bt is None and seq_mentions > 0) or (bt is not None and seq_mentions != 1) \
                or (bt is not None and (ps.get(bt.group(1)) != lo or ps.get(bt.group(2)) != hi or lo is None)):
            failures.append((name, _line(src, sel[-1][0]), "the rows handed to the chunker are not selected with `seq BETWEEN <start> AND <end>` over the two bounds the chunker is given (a row outside the announced range would be sent inside it)"))
            continue
        if lo is None and hi is None:
            # every row of the version is selected: the label must be the whole version
            if a != "CrsqlSeq(0)" or b != "last_seq":
                failures.append((name, _line(src, ao), "all rows of the version are selected but the chunker is told `%s ..= %s` instead of `CrsqlSeq(0) ..= last_seq`" % (args[1].strip(), args[2].strip())))
        else:
            # local aliases: `let start_seq = range_needed.start();`
            def resolve(x):
                m2 = None
                for m2 in re.finditer(r"\blet\s+%s\s*=\s*([^;]+);" % re.escape(x), msk[o:ao]):
                    pass
                return norm(src[o + m2.start(1):o + m2.end(1)]) if m2 and re.fullmatch(r"\w+", x) else x
            if resolve(a) != resolve(lo) or resolve(b) != resolve(hi):
                failures.append((name, _line(src, ao), "rows are selected with seq BETWEEN `%s` AND `%s` but the chunker is told `%s ..= %s`" % (lo, hi, args[1].strip(), args[2].strip())))
        # the chunker's precondition "rows arrive in strictly increasing seq order" is the query's ORDER BY
        name2 = "rows-reach-the-chunker-in-ascending-seq-order:site-%d" % (k + 1)
        obligations.append(name2)
        from .lex import iter_string_literals
        sqls = [(p_, t_) for (p_, t_) in iter_string_literals(src) if o <= p_ < qo and re.search(r"\bSELECT\b", t_)]
        if not sqls:
            raise LostAnchor("no SELECT text before ChunkedChanges::new site %d" % (k + 1))
        sql = sqls[-1][1]
        if not re.search(r"ORDER\s+BY\s+seq(\s+ASC)?\s*$", sql.strip(), re.I):
            failures.append((name2, _line(src, sqls[-1][0]), "the rows handed to the chunker are not selected `ORDER BY seq ASC`: its ranges are computed from the seq of the last row of a chunk"))
        samples.append("%s:%d site %d: rows %s..%s, chunker %s..%s" % (file, _line(src, ao), k + 1, lo, hi, a, b))
    return obligations, failures, samples


def check_seqmerge_params(u):
    """C02/C03: the DELETE … RETURNING of process_incomplete_version selects the stored seq rows that overlap or touch the incoming chunk.
    Its WHERE clause is proved equivalent to overlap-or-adjacent over (:start, :end) in unit c03_seqmerge; this obligation ties those two
    parameters to the incoming chunk's own bounds and the row filter to this actor and version."""
    file = u["file"]
    src, msk, o, c = _fn_body(file, u["fn"])
    m = re.search(r"named_params!\s*\[", msk[o:c])
    if not m:
        raise LostAnchor("process_incomplete_version: named_params![…] of the DELETE … RETURNING not found")
    ao = o + m.end() - 1
    ac = match_delim(msk, ao)
    text = src[ao:ac]
    ps = dict((mm.group(1), re.sub(r"[\s\*&]", "", mm.group(2))) for mm in re.finditer(r'":(\w+)"\s*:\s*([^,\n\]]+)', text))
    want = {"actor_id": "actor_id", "db_version": "version", "start": "seqs.start()", "end": "seqs.end()"}
    obligations = ["merge-query-parameter-%s-is-%s" % (k, re.sub(r"[^A-Za-z0-9]+", "-", v).strip("-")) for k, v in want.items()]
    failures = []
    for (k, v), ob in zip(want.items(), obligations):
        if ps.get(k) != v:
            failures.append((ob, _line(src, ao), "`:%s` is bound to `%s`, not `%s`" % (k, ps.get(k), v)))
    return obligations, failures, ["%s:%d %s" % (file, _line(src, ao), ps)]


def check_exists_binding(u):
    """C05: whether a version the server has no live change for is declared empty hinges on two flags read from one query:
    `in_gaps` (the version lies in a recorded gap: the server lacks it) and `buffered` (chunks of it are buffered: the server holds it only
    partially).  The Verus fragments of c05_serve take the two flags as given; this obligation ties them to the query: each name is bound
    to the column with that alias, the alias is computed from the right table with the right filter, and the parameters are this actor and
    this version."""
    from .lex import iter_string_literals
    file = u["file"]
    src, msk, o, c = _fn_body(file, u["fn"])
    obligations, failures, samples = [], [], []
    lets = list(re.finditer(r"\blet\s*\(\s*(\w+)\s*,\s*(\w+)\s*\)\s*(?::\s*\(\s*bool\s*,\s*bool\s*\))?\s*=\s*tx", msk[o:c]))
    if not lets:
        raise LostAnchor("handle_need: `let (in_gaps, buffered) = tx.prepare_cached(…)` not found")
    for k, m in enumerate(lets):
        st = o + m.start()
        e = st
        while e < c and msk[e] != ";":
            if msk[e] in "([{":
                e = match_delim(msk, e)
            e += 1
        stmt = src[st:e]
        lit = [(p_, t_) for (p_, t_) in iter_string_literals(src) if st <= p_ < e and "EXISTS" in t_]
        if not lit:
            continue
        sql = lit[0][1]
        name = "gap-and-buffered-flags-bound-to-their-queries:site-%d" % (len(obligations) + 1)
        obligations.append(name)
        aliases = re.findall(r"\)\s*AS\s+(\w+)", sql)
        subs = re.findall(r"EXISTS\s*\(\s*SELECT\s+1\s+FROM\s+(\w+)\s+WHERE\s+(.*?)\)\s*AS\s+\w+", sql, re.S)
        gets = [int(x) for x in re.findall(r"row\.get\((\d+)\)", stmt)]
        names = [m.group(1), m.group(2)]
        ln = _line(src, st)
        if len(aliases) != 2 or len(subs) != 2 or len(gets) != 2:
            raise Unsupported("handle_need: flag query shape not recognised at line %d" % ln)
        for nm, gi in zip(names, gets):
            if gi >= len(aliases) or aliases[gi] != nm:
                failures.append((name, ln, "`%s` is read from column #%d, which the query calls `%s`" % (nm, gi, aliases[gi] if gi < len(aliases) else "?")))
        want = {"in_gaps": ("__corro_bookkeeping_gaps", [r"actor_id\s*=\s*:actor_id", r":version\s+BETWEEN\s+start\s+AND\s+end"]),
                "buffered": ("__corro_buffered_changes", [r"site_id\s*=\s*:actor_id", r"db_version\s*=\s*:version"])}
        for al, (tbl, where) in zip(aliases, subs):
            if al in want:
                wt, conds = want[al]
                if tbl != wt or not all(re.search(cnd, " ".join(where.split())) for cnd in conds):
                    failures.append((name, ln, "`%s` is computed from `%s WHERE %s`, expected %s with %s" % (al, tbl, " ".join(where.split()), wt, " AND ".join(conds))))
        ps = dict((mm.group(1), re.sub(r"[\s\*&]", "", mm.group(2))) for mm in re.finditer(r'":(\w+)"\s*:\s*([^,\n}]+)', stmt))
        if ps.get("actor_id") != "actor_id" or ps.get("version") != "version":
            failures.append((name, ln, "query parameters are bound to %s" % ps))
        samples.append("%s:%d (%s, %s) <- columns %s of aliases %s" % (file, ln, names[0], names[1], gets, aliases))
    if not obligations:
        raise LostAnchor("handle_need: no EXISTS flag query found")
    return obligations, failures, samples


def check_feeds_fed(u):
    """C14 "a client is told about every key a committed change touched": on each of the three paths that commit changes
    (remote batch, fully buffered version, local write) BOTH feeds — subscriptions and row-level updates — are handed the committed
    changes, after the commit."""
    obligations, failures, samples = [], [], []
    for (file, fn, commit_rx) in u["sites"]:
        src, msk, o, c = _fn_body(file, fn)
        body = msk[o:c]
        name = "both-feeds-are-given-the-committed-changes:%s" % fn
        obligations.append(name)
        calls = [(o + m.start(), m.group(2)) for m in re.finditer(r"\bmatch_changes(_from_db_version)?\s*\(\s*agent\s*\.\s*(subs_manager|updates_manager)\s*\(\s*\)", body)]
        kinds = set(k for _p, k in calls)
        if kinds != {"subs_manager", "updates_manager"}:
            failures.append((name, _line(src, o), "only %s is fed in %s" % (sorted(kinds) or "no feed", fn), file))
            continue
        if commit_rx:
            cm = [o + m.start() for m in re.finditer(commit_rx, body)]
            if not cm:
                raise LostAnchor("%s: commit anchor /%s/ not found" % (fn, commit_rx))
            if min(p_ for p_, _k in calls) < max(cm):
                failures.append((name, _line(src, min(p_ for p_, _k in calls)), "a feed is given the changes before the transaction is committed", file))
        samples.append("%s:%d %s feeds %s" % (file, _line(src, calls[0][0]), fn, sorted(kinds)))
    return obligations, failures, samples


CHANGE_FIELDS = ["table", "pk", "cid", "val", "col_version", "db_version", "seq", "site_id", "cl"]


def _select_cols(sql):
    mm = re.search(r"SELECT\s+(.*?)\s+FROM\b", sql, re.S | re.I)
    if not mm:
        return None
    cols = []
    for part in _split_top(mm.group(1)):
        part = part.strip()
        am = re.search(r"\bAS\s+(\w+)\s*$", part, re.I)
        cols.append(am.group(1) if am else part.strip('"').split(".")[-1].strip('"'))
    return cols


def check_row_bindings(u):
    """C05/C03/C07: rows of `crsql_changes` become `Change` values through row_to_change, which reads columns BY POSITION; the sync server
    reads (version, last_seq, ts) and (start_seq, end_seq, last_seq, ts) by position too.  Obligations: row_to_change assigns position i
    to the i-th field of the fixed column order, every query whose rows are mapped with row_to_change selects those columns in that
    order, and every positional read in handle_need reads the column carrying that name."""
    from .lex import iter_string_literals
    obligations, failures, samples = [], [], []
    # (1) row_to_change
    f1 = "crates/klukai-types/src/change.rs"
    src, msk, o, c = _fn_body(f1, "row_to_change")
    name = "row-to-change-reads-each-field-from-its-own-column"
    obligations.append(name)
    got = re.findall(r"(\w+)\s*:\s*row\s*\.\s*get\s*\(\s*(\d+)\s*\)", msk[o:c])
    if len(got) < len(CHANGE_FIELDS):
        raise LostAnchor("row_to_change: field bindings not recognised")
    for fld, idx in got:
        if fld in CHANGE_FIELDS and CHANGE_FIELDS.index(fld) != int(idx):
            failures.append((name, _line(src, o), "field `%s` is read from column #%s, the queries put it at #%d" % (fld, idx, CHANGE_FIELDS.index(fld)), f1))
    # (2) every query mapped with row_to_change
    for file in u["files"]:
        whole = open(os.path.join(REPO, file)).read()
        wm = mask(whole)
        lits = [(a, t) for (a, t) in iter_string_literals(whole) if re.search(r"\bSELECT\b", t)]
        for m in re.finditer(r"\brow_to_change\b", wm):
            if re.match(r"row_to_change\s*\(\s*row\s*:", wm[m.start():]) or re.search(r"fn\s+$", wm[max(0, m.start() - 4):m.start()]):
                continue
            prev = [(a, t) for (a, t) in lits if a < m.start()]
            if not prev or m.start() - prev[-1][0] > 1500:
                continue
            a, t = prev[-1]
            cols = _select_cols(t)
            nm = "query-selects-the-change-columns-in-row-to-change-order:%s:%d" % (os.path.basename(file), len([x for x in obligations if os.path.basename(file) in x]) + 1)
            obligations.append(nm)
            if cols is None or cols[:len(CHANGE_FIELDS)] != CHANGE_FIELDS:
                failures.append((nm, _line(whole, a), "columns %s are mapped positionally by row_to_change, which expects %s" % (cols, CHANGE_FIELDS), file))
            samples.append("%s:%d SELECT %s -> row_to_change" % (file, _line(whole, a), ", ".join(cols or [])))
    # (3) positional reads in handle_need
    f3 = "crates/klukai-agent/src/api/peer/mod.rs"
    src, msk, o, c = _fn_body(f3, "handle_need")
    lits = [(a, t) for (a, t) in iter_string_literals(src) if o <= a < c and re.search(r"\bSELECT\b", t)]
    alias = {"version": "db_version"}
    n3 = "sync-server-reads-version-last-seq-ts-from-their-columns"
    obligations.append(n3)
    for m in re.finditer(r"\blet\s+(\w+)\s*:\s*\w+\s*=\s*row\s*\.\s*get\s*\(\s*(\d+)\s*\)", msk[o:c]):
        var, idx = m.group(1), int(m.group(2))
        # the query this row belongs to: the version-level query prepared at the top of handle_need (GROUP BY db_version)
        q = [t for (a, t) in lits if "GROUP BY db_version" in t]
        if not q:
            raise LostAnchor("handle_need: version-level query not found")
        cols = _select_cols(q[0])
        if idx >= len(cols) or cols[idx] != alias.get(var, var):
            failures.append((n3, _line(src, o + m.start()), "`%s` is read from column #%d (`%s`) of `SELECT %s`" % (var, idx, cols[idx] if idx < len(cols) else "?", ", ".join(cols)), f3))
    n4 = "sync-server-reads-buffered-ranges-from-their-columns"
    obligations.append(n4)
    for m in re.finditer(r"\|row\|\s*Ok\(\(\s*row\.get\((\d+)\)\?\s*\.\.=\s*row\.get\((\d+)\)\?\s*,\s*row\.get\((\d+)\)\?\s*,\s*row\.get\((\d+)\)\?\s*\)\)", msk[o:c]):
        prev = [(a, t) for (a, t) in lits if a < o + m.start()]
        cols = _select_cols(prev[-1][1]) if prev else None
        idxs = [int(x) for x in m.groups()]
        want = ["start_seq", "end_seq", "last_seq", "ts"]
        if cols is None or [cols[i] if i < len(cols) else "?" for i in idxs] != want:
            failures.append((n4, _line(src, o + m.start()), "(range start, range end, last_seq, ts) are read from columns %s of `SELECT %s`" % (idxs, ", ".join(cols or [])), f3))
    return obligations, failures, samples


def check_updates_row_binding(u):
    """C14: match_changes_from_db_version (the feed path after a buffered remote version is applied) reads (table, pk, column, cl) by position
    from `SELECT "table", pk, cid, cl FROM crsql_changes …`.  `cl` — the causal length, whose parity decides 'deleted' vs 'updated' and
    which orders states of a key — must come from the `cl` column, not from `col_version`."""
    from .lex import iter_string_literals
    file = u["file"]
    src, msk, o, c = _fn_body(file, u["fn"])
    lits = [(a, t) for (a, t) in iter_string_literals(src) if o <= a < c and re.search(r"\bSELECT\b", t)]
    if not lits:
        raise LostAnchor("match_changes_from_db_version: SELECT not found")
    cols = _select_cols(lits[0][1])
    gets = [int(x) for x in re.findall(r"row\s*\.\s*get\s*::\s*<[^()]*>\s*\(\s*(\d+)\s*\)", msk[o:c])]
    dm = re.search(r"let\s*\(\s*(\w+)\s*,\s*(\w+)\s*,\s*(\w+)\s*,\s*(\w+)\s*\)\s*=\s*change_res", msk[o:c])
    if not dm or len(gets) < 4:
        raise LostAnchor("match_changes_from_db_version: row tuple / destructuring not recognised")
    names = list(dm.groups())
    want = {"table": "table", "pk": "pk", "column": "cid", "cl": "cl"}
    obligations = ["feed-after-buffered-apply-reads-%s-from-its-column" % n for n in names]
    failures = []
    for n, gi, ob in zip(names, gets[:4], obligations):
        col = cols[gi] if cols and gi < len(cols) else "?"
        if col != want.get(n, n):
            failures.append((ob, _line(src, lits[0][0]), "`%s` is read from column #%d, which the query fills with `%s`" % (n, gi, col)))
    return obligations, failures, ["%s:%d SELECT %s -> %s" % (file, _line(src, lits[0][0]), cols, names)]


def check_broadcast_delivery(u):
    """C07: every chunk of a committed local transaction is announced: broadcast_changes hands each changeset to the broadcast queue with a
    WAITING send (`tx_bcast.send(..).await`, in a spawned task so the caller is not blocked).  A `try_send` drops the chunk when the
    bounded queue is full — the acknowledged transaction is then announced with holes."""
    file = u["file"]
    src, msk, o, c = _fn_body(file, u["fn"])
    body = msk[o:c]
    obligations = ["local-changesets-are-queued-with-a-waiting-send"]
    failures = []
    m = re.search(r"BroadcastInput\s*::\s*AddBroadcast", body)
    if not m:
        raise LostAnchor("broadcast_changes: BroadcastInput::AddBroadcast not found")
    pre = body[max(0, m.start() - 200):m.start()]
    if re.search(r"\btry_send\s*\(\s*$", pre) or re.search(r"\.\s*try_send\s*\(", pre.split(";")[-1]):
        failures.append((obligations[0], _line(src, o + m.start()), "the changeset is handed over with try_send: it is dropped when the broadcast queue is full"))
    elif not re.search(r"\.\s*send\s*\(\s*$", pre.rstrip() + "") and not re.search(r"\.\s*send\s*\(", pre.split(";")[-1]):
        raise Unsupported("broadcast_changes: how the changeset is handed to the queue was not recognised")
    else:
        # the send must be awaited
        so = o + m.start()
        k = msk.rfind("(", o, so)
        e = match_delim(msk, k)
        if not re.match(r"\s*\.\s*await\b", msk[e + 1:e + 40]):
            failures.append((obligations[0], _line(src, so), "the send future is not awaited"))
    return obligations, failures, ["%s:%d tx_bcast.send(AddBroadcast(..)).await" % (file, _line(src, o + m.start()))]


def check_sub_select_only(u):
    """C17: the text submitted to the subscription endpoint reaches SQLite only (a) to be *prepared* for its column names and
    (b) through the SQL parser, whose result is rejected unless it is one SELECT statement; nothing is executed on the node's
    (write-capable) connection inside `Matcher::new`, and every statement run later is printed from the parsed SELECT."""
    file = u["file"]
    src, msk, o, c = _fn_body(file, u["fn"], u.get("impl"))
    body = msk[o:c]
    obligations = ["raw-text-only-prepared-for-column-names-or-parsed", "nothing-executed-on-node-connection-before-the-select-guard",
                   "non-select-statement-rejected", "non-statement-command-rejected"]
    failures, samples = [], []
    # (A) every use of the raw text `sql`
    allowed = [r"\.\s*as_bytes\s*\(\s*\)", r"\.\s*to_owned\s*\(\s*\)", r"\.\s*to_string\s*\(\s*\)", r"\.\s*len\s*\(\s*\)"]
    for m in re.finditer(r"(?<![\w.%])sql\b(?!\s*:)", body):
        at = o + m.start()
        after = msk[at + 3:at + 60]
        before = msk[max(o, at - 40):at]
        if any(re.match(r"\s*" + a, after) for a in allowed):
            continue
        pm = re.search(r"\.\s*prepare\s*\(\s*$", before)
        if pm:
            # `X.prepare(sql)?` must be consumed on the spot by `.column_names()` / `.column_count()` (no binding, no stepping)
            close = match_delim(msk, msk.rfind("(", o, at))
            rest = msk[close + 1:close + 80]
            if re.match(r"\s*\?\s*\.\s*(column_names|column_count|readonly)\s*\(\s*\)", rest):
                samples.append("%s:%d raw text prepared for its column names only" % (file, _line(src, at)))
                continue
            failures.append(("raw-text-only-prepared-for-column-names-or-parsed", _line(src, at), "statement prepared from the raw subscription text is kept or stepped instead of being read for its column names only"))
            continue
        if re.search(r"%\s*$", before) or re.search(r"\b(info|debug|trace|warn|error)!\s*\([^;]*$", before):
            continue
        failures.append(("raw-text-only-prepared-for-column-names-or-parsed", _line(src, at), "raw subscription text used outside prepare-for-column-names / parser / copy"))
    # (B) the node connection is not run inside this function
    for m in re.finditer(r"\bstate_conn\b", body):
        at = o + m.start()
        after = msk[at + len("state_conn"):at + 80]
        if re.match(r"\s*:", after):
            continue
        if re.match(r"\s*\.\s*prepare\s*\(\s*sql\s*\)", after):
            continue
        failures.append(("nothing-executed-on-node-connection-before-the-select-guard", _line(src, at), "the node's connection is used for something other than preparing the text for its column names"))
    for m in re.finditer(r"\.\s*(execute|execute_batch|query|query_row|query_map|raw_execute|exists|raw_query)\s*\(\s*\(?\s*sql\b", body):
        failures.append(("nothing-executed-on-node-connection-before-the-select-guard", _line(src, o + m.start()), "raw subscription text is executed"))
    # (C) the parse guard
    pm = re.search(r"\bmatch\s+parser\s*\.\s*next\s*\(\s*\)[^{]*\{", body)
    if not pm:
        raise LostAnchor("`match parser.next()…` not found in %s" % u["fn"])
    mo = o + pm.end() - 1
    mc = match_delim(msk, mo)
    arms = _match_arms(msk, mo, mc)
    stmt_arm = [a for a in arms if re.match(r"(Some\s*\()?\s*Cmd\s*::\s*Stmt\s*\(", a[0])]
    other = [a for a in arms if a not in stmt_arm]
    if len(stmt_arm) != 1:
        raise LostAnchor("Cmd::Stmt arm not found")
    for pat, bs, be in other:
        if not re.match(r"\{?\s*return\s+Err\s*\(", msk[bs:be]) and not re.match(r"\{?\s*Err\s*\(", msk[bs:be]):
            failures.append(("non-statement-command-rejected", _line(src, bs), "a parser result other than a statement (`%s`) is not rejected" % pat))
    if not other:
        failures.append(("non-statement-command-rejected", _line(src, mo), "no rejecting arm for non-statement commands"))
    _, sbs, sbe = stmt_arm[0]
    im = re.search(r"\bmatch\s+&?(mut\s+)?stmt\s*\{", msk[sbs:sbe])
    if not im:
        raise LostAnchor("`match stmt {` not found in the Cmd::Stmt arm")
    io_ = sbs + im.end() - 1
    ic = match_delim(msk, io_)
    iarms = _match_arms(msk, io_, ic)
    sel = [a for a in iarms if re.match(r"Stmt\s*::\s*Select\s*\(", a[0]) and not re.search(r"\bif\b", a[0])]
    rest = [a for a in iarms if a not in sel]
    if not sel:
        failures.append(("non-select-statement-rejected", _line(src, io_), "no arm accepting exactly `Stmt::Select`"))
    for pat, bs, be in rest:
        if not re.match(r"\{?\s*return\s+Err\s*\(", msk[bs:be]):
            failures.append(("non-select-statement-rejected", _line(src, bs), "statement kind `%s` is accepted for a subscription" % pat.strip()[:60]))
    if not rest:
        failures.append(("non-select-statement-rejected", _line(src, io_), "no rejecting arm for non-SELECT statements"))
    samples.append("%s:%d only Stmt::Select is accepted; %d other arm(s) return Err" % (file, _line(src, io_), len(rest)))
    # the guard comes before the first statement text derived from the parse is produced
    first_print = re.search(r"Cmd\s*::\s*Stmt\s*\(\s*stmt\s*\)\s*\.\s*to_string", msk[mc:c])
    if first_print is None:
        samples.append("no statement text is printed in this function after the guard")
    return obligations, failures, samples


def check_last_id_published(u):
    """C12: catch_up_sub decides whether it has caught up with the live feed by comparing the id it read from the change log with
    `last_change_id_sent()`.  That is only sound if the matcher publishes the id of every change event right after handing the event to the
    subscribers' channel — per change and before its transaction commits — so that the published id is never BEHIND an event already
    broadcast.  Obligation on Matcher::handle_candidates: every `evt_tx.blocking_send(QueryEvent::Change(.., id))` is followed, in the same
    block, by `last_change_tx.send(id)` with that very id, and that block lies before (and nested below) `tx.commit()`."""
    file = u["file"]
    src, msk, o, c = _fn_body(file, u["fn"], u.get("impl"))
    body = msk[o:c]
    obligations = ["every-broadcast-change-id-is-published-right-after-the-event", "published-before-the-matcher-transaction-commits"]
    failures, samples = [], []
    sends = [o + m.start() for m in re.finditer(r"\bevt_tx\s*\.\s*(?:blocking_send|send|try_send)\s*\(\s*QueryEvent\s*::\s*Change\s*\(", body)]
    if not sends:
        raise LostAnchor("%s: no evt_tx send of QueryEvent::Change" % u["fn"])
    cms = [o + m.start() for m in re.finditer(r"\btx\s*\.\s*commit\s*\(\s*\)", body)]
    if not cms:
        raise LostAnchor("%s: no tx.commit()" % u["fn"])
    for sp in sends:
        # the commit of the transaction the event belongs to: the first one after the send
        later = [p_ for p_ in cms if p_ > sp]
        if not later:
            raise Unsupported("change events are sent after the last tx.commit(): different protocol")
        cpos = later[0]
        po = msk.index("(", msk.index("Change", sp))
        pc = match_delim(msk, po)
        args = _split_top(src[po + 1:pc])
        idv = args[-1].strip() if args else ""
        if not re.fullmatch(r"[A-Za-z_]\w*", idv):
            raise Unsupported("QueryEvent::Change id argument is not a plain variable: %r" % idv)
        # innermost enclosing block of the send, and the end of the statement that contains the send
        depth, k = 0, sp
        while k > o:
            k -= 1
            if msk[k] == "}":
                depth += 1
            elif msk[k] == "{":
                if depth == 0:
                    break
                depth -= 1
        # the send may sit in the header of an `if … let Err(e) = send(..) { … }`: the enclosing block found above is then the block the `if` lives in
        blk_open = k
        blk_close = match_delim(msk, blk_open)
        # end of the statement containing the send: skip to the end of its trailing block / semicolon at depth 0
        j = pc
        d = 0
        while j < blk_close:
            ch = msk[j]
            if ch in "([{":
                j = match_delim(msk, j)
                if ch == "{" and d == 0:
                    j += 1
                    break
            elif ch == ";" and d == 0:
                j += 1
                break
            j += 1
        after = msk[j:blk_close]
        pm = re.search(r"\blast_change_tx\s*\.\s*send\s*\(\s*%s\s*\)" % re.escape(idv), after)
        if not pm:
            failures.append((obligations[0], _line(src, sp), "the id `%s` of a change event handed to the subscribers is not published (`last_change_tx.send(%s)`) in the same block right after it" % (idv, idv)))
        else:
            samples.append("%s:%d event with id `%s` sent, id published at line %d" % (file, _line(src, sp), idv, _line(src, j + pm.start())))
            if j + pm.start() > cpos:
                failures.append((obligations[1], _line(src, j + pm.start()), "the id is published after tx.commit()"))
    return obligations, failures, samples


def check_apply_trigger_waits(u):
    """C10: a version whose last missing chunk has just been buffered is applied by the background applier only when it is TOLD so through
    the bounded `tx_apply` channel — nothing re-creates that trigger later (the version now counts as held, so re-offers are refused and
    sync no longer asks for it).  The trigger must therefore be handed over with a waiting send (`tx_apply.send(..).await`, in a spawned
    task so the ingest loop is not blocked); a `try_send` drops it when the applier is behind, and the version is never applied."""
    file = u["file"]
    src, msk, o, c = _fn_body(file, u["fn"])
    body = msk[o:c]
    name = "apply-trigger-of-a-fully-buffered-version-is-sent-with-a-waiting-send"
    obligations, failures, samples = [name], [], []
    # local names bound to the channel: `let X = agent.tx_apply().clone();`
    names = set(["tx_apply"]) | set(m.group(1) for m in re.finditer(r"\blet\s+(?:mut\s+)?(\w+)\s*=\s*[\w.]*\btx_apply\s*\(\s*\)", body))
    uses = [m for m in re.finditer(r"\b(?:%s)\b(\s*\(\s*\))?" % "|".join(sorted(map(re.escape, names))), body)]
    if not uses:
        raise LostAnchor("%s: tx_apply not used" % u["fn"])
    waiting = 0
    for m in uses:
        rest = body[m.end():m.end() + 60]
        at = o + m.start()
        if re.match(r"\s*\.\s*try_send\s*\(", rest):
            failures.append((name, _line(src, at), "the apply trigger is handed over with try_send: it is dropped when the applier's queue is full and nothing sends it again"))
        ms = re.match(r"\s*\.\s*(send|send_timeout|blocking_send)\s*\(", rest)
        if ms:
            po = at + (m.end() - m.start()) + ms.end() - 1
            pc = match_delim(msk, po)
            if ms.group(1) == "send" and not re.match(r"\s*\.\s*await\b", msk[pc + 1:pc + 40]):
                failures.append((name, _line(src, at), "the send future of the apply trigger is not awaited"))
            elif ms.group(1) == "send_timeout":
                failures.append((name, _line(src, at), "the apply trigger is sent with a timeout: it is dropped when the applier stays behind"))
            else:
                waiting += 1
                samples.append("%s:%d tx_apply.%s(..) waits for room in the queue" % (file, _line(src, at), ms.group(1)))
    if not failures and waiting == 0:
        raise Unsupported("%s: how the apply trigger is handed to the applier was not recognised" % u["fn"])
    return obligations, failures, samples


def check_lagged_arm_returns(u):
    """C14 (and C12 for subscriptions): a feed forwarder reads events from a tokio broadcast receiver; `RecvError::Lagged(n)` means n events
    are gone for good.  The forwarder must end the stream there (the client re-attaches and re-reads): carrying on would silently skip the
    notifications of the lost events."""
    file = u["file"]
    src, msk, o, c = _fn_body(file, u["fn"])
    name = "lagged-broadcast-receiver-stops-the-feed"
    arms = list(re.finditer(r"Err\s*\(\s*(?:\w+\s*::\s*)*RecvError\s*::\s*Lagged\s*\([^)]*\)\s*\)\s*=>", msk[o:c]))
    if not arms:
        # the error may be swallowed by a refutable pattern (`Ok(x) = rx.recv()` in select!, `while let Ok(..)`) — then nothing looks at Lagged at all
        if re.search(r"\.\s*recv\s*\(\s*\)", msk[o:c]):
            return [name], [(name, _line(src, o), "no arm looks at RecvError::Lagged: a lagged receiver is silently skipped")], []
        raise LostAnchor("%s: no broadcast recv() found" % u["fn"])
    failures, samples = [], []
    for m in arms:
        k = o + m.end()
        while msk[k].isspace():
            k += 1
        e = match_delim(msk, k) if msk[k] == "{" else msk.index(",", k)
        if not re.search(r"\b(return|break)\b", msk[k:e]):
            failures.append((name, _line(src, k), "the Lagged arm neither returns nor leaves the loop: the feed continues past the skipped events"))
        samples.append("%s:%d Lagged arm ends the feed" % (file, _line(src, k)))
    return [name], failures, samples


def check_loops_unfiltered(u):
    """C04: compute_available_needs decides, collection by collection, what to ask: the peer's heads, our gap ranges, the peer-held ranges
    overlapping one, our partially held versions, the peer's missing seq ranges of one.  The per-element decisions are under contract as
    fragments; that EVERY element reaches them is this obligation: none of the `for` loops of the function iterates through a filtering or
    truncating adapter (filter, filter_map, take, take_while, skip, skip_while, step_by) — an element skipped by the loop header is a
    version or range that is never requested."""
    file = u["file"]
    src, msk, o, c = _fn_body(file, u["fn"], u.get("impl"))
    obligations, failures, samples = [], [], []
    n = 0
    for m in re.finditer(r"\bfor\s+", msk[o:c]):
        k = o + m.end()
        # `for PAT in EXPR {` — find ` in ` at depth 0, then the `{` at depth 0
        j = k
        while j < c and not (msk.startswith(" in ", j)):
            if msk[j] in "([{":
                j = match_delim(msk, j)
            j += 1
        if j >= c:
            continue
        e0 = j + 4
        j = e0
        while j < c and msk[j] != "{":
            if msk[j] in "([":
                j = match_delim(msk, j)
            j += 1
        expr = msk[e0:j]
        if re.match(r"\s*<", expr):
            continue  # `for<'a>` bound, not a loop
        n += 1
        pat = re.sub(r"\s+", " ", msk[k:e0 - 4]).strip()
        name = "loop-%d-over-%s-examines-every-element" % (n, re.sub(r"[^A-Za-z0-9_]+", "-", pat).strip("-")[:30])
        obligations.append(name)
        bad = re.search(r"\.\s*(filter|filter_map|take|take_while|skip|skip_while|step_by)\s*\(", expr)
        if bad:
            failures.append((name, _line(src, e0), "the loop over `%s` goes through `.%s(..)`: elements dropped by the loop header are never examined, so what they stand for is never requested" % (re.sub(r"\s+", " ", expr).strip()[:80], bad.group(1))))
        samples.append("%s:%d for %s in %s" % (file, _line(src, e0), pat, re.sub(r"\s+", " ", expr).strip()[:60]))
    if not obligations:
        raise LostAnchor("%s: no for loop found" % u["fn"])
    return obligations, failures, samples


def check_own_actor_guard(u):
    """C07: a node's own versions come only from its own local writes ("a node never lists a gap in its own versions", "acknowledged with
    a version exactly one greater than the previous").  handle_changes therefore drops every changeset attributed to the node itself —
    unconditionally, whatever channel it arrived on — before the changeset touches the seen-cache, the bookkeeping or the apply queue."""
    file = u["file"]
    src, msk, o, c = _fn_body(file, u["fn"])
    body = msk[o:c]
    name = "changesets-attributed-to-this-node-are-dropped-unconditionally"
    gs = list(re.finditer(r"\bif\s+(?:change\s*\.\s*actor_id\s*==\s*agent\s*\.\s*actor_id\s*\(\s*\)|agent\s*\.\s*actor_id\s*\(\s*\)\s*==\s*change\s*\.\s*actor_id)\s*\{", body))
    if not gs:
        return [name], [(name, _line(src, o), "handle_changes has no `if change.actor_id == agent.actor_id() { continue }` guard")], []
    # where the changeset is first used for bookkeeping
    # per-change processing starts where the received changeset is first looked at …
    st = re.search(r"\blet\s+change_len\s*=\s*change\s*\.\s*len\s*\(\s*\)", body)
    if not st:
        raise LostAnchor("handle_changes: start of the per-changeset processing (`let change_len = change.len()`) not found")
    # … and this is where it is first used for bookkeeping
    use = re.compile(r"\bseen\s*\.\s*(get|contains_key|insert|entry)\s*\(|\blet\s+booked\s*=|\bqueue\s*\.\s*push").search(body, st.end())
    if not use:
        raise LostAnchor("handle_changes: first bookkeeping use of the changeset not found")
    gs = [g for g in gs if g.start() > st.start()] or gs

    def depth_at(pos):
        d = 0
        for ch in body[:pos]:
            if ch == "{":
                d += 1
            elif ch == "}":
                d -= 1
        return d
    failures, samples = [], []
    ok = False
    for g in gs:
        bo = o + g.end() - 1
        bc = match_delim(msk, bo)
        blk = re.sub(r"\s+", " ", msk[bo + 1:bc]).strip()
        ends_with_continue = re.search(r"\bcontinue\s*;?\s*$", blk) is not None
        if st.start() < g.start() < use.start() and depth_at(g.start()) == depth_at(st.start()) and ends_with_continue:
            ok = True
            samples.append("%s:%d own-actor guard at the loop body's top level, before the first bookkeeping use at line %d" % (file, _line(src, o + g.start()), _line(src, o + use.start())))
    if not ok:
        g = gs[0]
        why = "is nested under another condition" if depth_at(g.start()) != depth_at(st.start()) else ("comes after the changeset is first used" if g.start() >= use.start() else "does not `continue`")
        failures.append((name, _line(src, o + g.start()), "the own-actor guard %s: a changeset attributed to this node can reach its bookkeeping" % why))
    return [name], failures, samples


def check_loop_runs_to_end(u):
    """C15: apply_schema treats every table present in both schemas in one pass of one loop body: drop / change / primary-key rules, new
    columns, then the index comparison.  The rules are under contract as fragments; that a table which passed the first ones also REACHES
    the later ones is this obligation: the loop body is left before its end only by `return Err(..)` / `?` — no `continue`, no `break`, no
    `return Ok` at the level of that loop."""
    file = u["file"]
    src, msk, o, c = _fn_body(file, u["fn"], u.get("impl"))
    loops = []
    for m in re.finditer(r"\b(for\b[^{;]*?\bin\b[^{;]*?|while\b[^{;]*?|loop\s*)\{", msk[o:c]):
        ob = o + m.end() - 1
        loops.append((o + m.start(), ob, match_delim(msk, ob), re.sub(r"\s+", " ", src[o + m.start():ob]).strip()))
    target = [l for l in loops if re.search(u["header"], l[3])]
    if len(target) != 1:
        raise LostAnchor("%s: expected exactly one loop matching /%s/, found %s" % (u["fn"], u["header"], [l[3][:60] for l in target]))
    ls, ob, cb, hdr = target[0]
    name = u.get("obligation", "every-element-reaches-the-end-of-the-loop-body")
    failures = []
    for bm in re.finditer(r"\b(continue|break)\b", msk[ob:cb]):
        pos = ob + bm.start()
        inner = max((l for l in loops if l[1] < pos < l[2]), key=lambda l: l[1])
        if inner[1] == ob:
            failures.append((name, _line(src, pos), "`%s` leaves the body of `%s …` early: what follows it in the body (for apply_schema: the index comparison) is skipped for this element" % (bm.group(1), hdr[:50])))
    for rm in re.finditer(r"\breturn\s+Ok\b", msk[ob:cb]):
        failures.append((name, _line(src, ob + rm.start()), "`return Ok` inside the loop"))
    return [name], failures, ["%s:%d `%s {…}`: left early only by return Err / ?" % (file, _line(src, ls), hdr[:80])]


def check_chunker_error_stops(u):
    """C05/C08/C07: the chunker's contract (unit c08_chunker) is about rows that decode; when a row of the result set fails
    (`Some(Err(_))` from ChunkedChanges::next, `Err(_)` when iterating it) the chunker keeps the changes it had collected and is NOT
    finished.  Its consumer must stop there: carrying on would later emit a changeset that announces the whole seq range while the failed
    row's change is missing from it.  Obligation: the error arm of the loop that consumes the chunker leaves the loop (`break` / `return`),
    and does not `continue`."""
    file = u["file"]
    src, msk, o, c = _fn_body(file, u["fn"])
    body = msk[o:c]
    name = "a-failed-row-ends-the-answer-for-this-range"
    # the match over what the chunker yields: `match chunked.next() {` or `for x in chunked { match x {`
    ms = list(re.finditer(r"\bmatch\s+(?:%s\s*\.\s*next\s*\(\s*\)|%s)\s*\{" % (u.get("chunker", "chunked"), u.get("item", "changes_seqs")), body))
    if not ms:
        raise LostAnchor("%s: the match over the chunker's output was not found" % u["fn"])
    failures, samples = [], []
    for m in ms:
        mo = o + m.end() - 1
        mc = match_delim(msk, mo)
        arms = _match_arms(msk, mo, mc)
        err = [a for a in arms if re.match(r"(Some\s*\(\s*)?Err\s*\(", a[0])]
        if not err:
            failures.append((name, _line(src, mo), "no arm handles a failed row: it would be swallowed by a catch-all"))
            continue
        for pat, bs, be in err:
            blk = msk[bs:be]
            if re.search(r"\bcontinue\b", blk) or not re.search(r"\b(break|return)\b", blk):
                failures.append((name, _line(src, bs), "the `%s` arm does not leave the loop: the chunker is resumed after a failed row and will announce a seq range it does not fully carry" % pat.strip()[:40]))
            samples.append("%s:%d `%s` arm leaves the loop" % (file, _line(src, bs), pat.strip()[:40]))
    return [name], failures, samples


def check_snapshot_label(u):
    """C12: the snapshot a new subscriber receives ends with `EndOfQuery { change_id }`; the stream then continues with change_id + 1.  That
    id must describe the very rows that were sent: it is read from the change log (`MAX(id) FROM changes`) on the SAME connection /
    transaction the rows were read from (unit c12_lag_stops decides that the caller passes one transaction), and it is also what
    all_rows returns to catch_up_sub.  The matcher's in-memory `last_change_id_sent` runs ahead of committed state during a batch."""
    file = u["file"]
    src, msk, o, c = _fn_body(file, u["fn"], u.get("impl"))
    body = msk[o:c]
    name = "snapshot-is-labelled-with-the-change-id-read-with-its-rows"
    failures, samples = [], []
    m = re.search(r"QueryEvent\s*::\s*EndOfQuery\s*\{", body)
    if not m:
        raise LostAnchor("%s: QueryEvent::EndOfQuery not sent" % u["fn"])
    bo = o + m.end() - 1
    bc = match_delim(msk, bo)
    fm = re.search(r"\bchange_id\s*:\s*Some\s*\(\s*(\w+)\s*\)|\bchange_id\s*:\s*(\w+)\b", msk[bo:bc])
    if not fm:
        raise Unsupported("EndOfQuery change_id is not a plain variable")
    var = fm.group(1) or fm.group(2)
    # the binding of that variable
    bind = None
    for bind in re.finditer(r"\blet\s+(?:mut\s+)?%s\b[^=;]*=" % re.escape(var), msk[o:bo]):
        pass
    if not bind:
        raise LostAnchor("binding of `%s` not found" % var)
    bs = o + bind.end()
    be = bs
    while be < c and msk[be] != ";":
        if msk[be] in "([{":
            be = match_delim(msk, be)
        be += 1
    rhs_m = msk[bs:be]
    rhs = src[bs:be]
    conn_param = re.search(r"\b(\w+)\s*:\s*&\s*(?:rusqlite\s*::\s*)?Connection\b", src[max(0, o - 600):o])
    cname = conn_param.group(1) if conn_param else "conn"
    if not re.match(r"\s*%s\s*\." % re.escape(cname), rhs_m) or not re.search(r"MAX\s*\(\s*id\s*\)", rhs, re.I) or not re.search(r"\bFROM\s+changes\b", rhs, re.I):
        failures.append((name, _line(src, bs), "`%s` (sent as the end-of-query change id) is not read as MAX(id) FROM changes on `%s`, the connection the rows came from: `%s`" % (var, cname, re.sub(r"\s+", " ", rhs).strip()[:90])))
    # the rows come from the same connection
    if not re.search(r"\b%s\s*\.\s*prepare(_cached)?\s*\(" % re.escape(cname), body):
        failures.append((name, _line(src, o), "the snapshot rows are not read from `%s`" % cname))
    # and the same id is what the caller gets back
    tail = re.sub(r"\s+", "", msk[bc:c])
    if not re.search(r"Ok\(%s\)\}?$" % re.escape(var), tail):
        failures.append((name, _line(src, bc), "all_rows does not return the id it labelled the snapshot with"))
    samples.append("%s:%d EndOfQuery.change_id = %s = %s" % (file, _line(src, bo), var, re.sub(r"\s+", " ", rhs).strip()[:80]))
    return [name], failures, samples


def check_cursor_writers(u):
    """C12 (client clause): the client's position in the stream, `last_change_id`, moves only through the two functions that are under
    contract in unit c12_client — handle_eoq (snapshot label) and handle_change (accepts id == last + 1, reports MissedChange otherwise) —
    and the constructor.  Any other assignment moves the cursor without the gap check."""
    file = u["file"]
    src = open(os.path.join(REPO, file)).read()
    msk = mask(src)
    name = "client-cursor-moves-only-through-the-checked-functions"
    allowed = set(u.get("writers", ["handle_change", "handle_eoq"]))
    failures, samples = [], []
    # function spans
    spans = []
    for m in re.finditer(r"\bfn\s+(\w+)\s*(<[^>{]*>)?\s*\(", msk):
        k = m.end() - 1
        k = match_delim(msk, k) + 1
        while k < len(msk) and msk[k] not in "{;":
            k += 1
        if k < len(msk) and msk[k] == "{":
            spans.append((m.group(1), k, match_delim(msk, k)))
    n = 0
    for m in re.finditer(r"\b(?:self|this)\s*\.\s*last_change_id\s*=[^=]", msk):
        n += 1
        inner = [sp for sp in spans if sp[1] < m.start() < sp[2]]
        fn = max(inner, key=lambda sp: sp[1])[0] if inner else "?"
        if fn not in allowed:
            failures.append((name, _line(src, m.start()), "`last_change_id` is assigned in `%s`, outside %s: the cursor moves without the contiguity check" % (fn, sorted(allowed))))
        samples.append("%s:%d last_change_id assigned in %s" % (file, _line(src, m.start()), fn))
    if n == 0:
        raise LostAnchor("no assignment to last_change_id found in %s" % file)
    return [name], failures, samples


CHECKS = {"cursor_writers": check_cursor_writers, "snapshot_label": check_snapshot_label, "chunker_error_stops": check_chunker_error_stops, "loop_runs_to_end": check_loop_runs_to_end, "own_actor_guard": check_own_actor_guard, "loops_unfiltered": check_loops_unfiltered, "lagged_arm_returns": check_lagged_arm_returns, "apply_trigger_waits": check_apply_trigger_waits, "last_id_published": check_last_id_published, "sub_select_only": check_sub_select_only, "broadcast_delivery": check_broadcast_delivery, "updates_row_binding": check_updates_row_binding, "row_bindings": check_row_bindings, "feeds_fed": check_feeds_fed, "exists_binding": check_exists_binding, "seqmerge_params": check_seqmerge_params, "chunker_ranges": check_chunker_ranges, "persist_before_publish": check_persist_before_publish, "schema_reload": check_schema_reload, "cluster_id_fresh": check_cluster_id_fresh, "schema_ddl": check_schema_ddl, "schema_atomic": check_schema_atomic, "seq_range_guard": check_seq_range_guard, "exits_covered": check_exits_covered, "sub_lag_stops": check_sub_lag_stops, "single_snapshot": check_single_snapshot, "offer_loops": check_offer_loops, "speedy_prealloc": check_speedy_prealloc, "from_conn": check_from_conn, "sql_actor_scoping": check_sql_actor_scoping, "local_write_sequence": check_local_write_sequence, "insert_local_changes": check_insert_local_changes, "authz_layer": check_authz_layer, "readonly_guard": check_readonly_guard, "read_pool": check_read_pool}


def run_unit(prop, u, tier, ctx, here):
    rec = {"unit": u["name"], "engine": "structural"}
    try:
        obligations, failures, samples = CHECKS[u["check"]](u)
    except (LostAnchor, Unsupported) as e:
        rec["status"] = "undecided"
        rec["reason"] = "%s: %s" % (type(e).__name__, e)
        return rec
    rec["obligations"] = len(obligations)
    failures = [(f[0], f[1], f[2], f[3] if len(f) > 3 else u["file"]) for f in failures]
    failed_names = set(f[0] for f in failures)
    rec["discharged"] = len([x for x in obligations if x not in failed_names])
    rec["samples"] = ["%s: structural obligation `%s`" % (u["name"], x) for x in obligations[:8]] + samples[:4]
    rec["cmd"] = "./check %s --only %s   (structural: vx/structural.py %s on %s::%s)" % (prop, u["name"], u["check"], u.get("file", u.get("dir")), u.get("fn", "*"))
    rec["trusted"] = list(u.get("trusted", [])) + (["types assumed to have a positive minimum encoded size (foreign / not found): %s" % ", ".join(u["_assumed"])] if u.get("_assumed") else [])
    rec["failures"] = [{"obligation": "%s::structural:%s" % (u["name"], n), "kind": "structural", "tag": n,
                        "repo_location": "%s:%d" % (fl, ln), "spec_location": None, "message": msg,
                        "input": {"call_site": "%s:%d" % (fl, ln)}, "replay_result": msg,
                        "rendered": "structural obligation `%s` does not hold at %s:%d: %s" % (n, fl, ln, msg)} for (n, ln, msg, fl) in failures]
    rec["status"] = "failed" if failures else "verified"
    return rec
