"""Translate the boolean WHERE-fragment of a literal SQL string in /repo into a Verus `spec fn` over `int`.

Grammar accepted (anything else => Unsupported => exit 2, never an alarm):
    expr   := or
    or     := and ( OR and )*
    and    := atom ( AND atom )*
    atom   := '(' expr ')' | sum BETWEEN sum AND sum | sum cmp sum
    cmp    := <= | >= | = | < | > | != | <>
    sum    := term ( (+|-) term )*
    term   := identifier | :param | integer
`-- comment` lines are dropped.  Column names and :params become `int` parameters of the spec function
(in order of first appearance unless an explicit parameter order is given).
Trusted: this translator, and "SQLite evaluates integer comparison / BETWEEN / +-1 as mathematics on
values < 2^63" (all values bound here come from u64::to_sql, which rejects larger ones).
"""
import re

from .lex import Unsupported

TOK = re.compile(r"\s*(?:(--[^\n]*)|(<=|>=|<>|!=|=|<|>|\+|-|\(|\))|(:[A-Za-z_]\w*)|([A-Za-z_]\w*)|(\d+))")


def tokenize(s):
    out = []
    i = 0
    s = s.rstrip()
    while i < len(s):
        m = TOK.match(s, i)
        if not m or m.end() == i:
            if s[i:].strip() == "":
                break
            raise Unsupported("SQL predicate: cannot tokenize at %r" % s[i:i + 30])
        i = m.end()
        if m.group(1):
            continue
        if m.group(2):
            out.append(("op", m.group(2)))
        elif m.group(3):
            out.append(("param", m.group(3)[1:]))
        elif m.group(4):
            w = m.group(4)
            if w.upper() in ("AND", "OR", "BETWEEN", "NOT"):
                out.append(("kw", w.upper()))
            else:
                out.append(("col", w))
        else:
            out.append(("num", m.group(5)))
    return out


class P:
    def __init__(self, toks):
        self.t = toks
        self.i = 0
        self.vars = []

    def peek(self):
        return self.t[self.i] if self.i < len(self.t) else (None, None)

    def eat(self, kind=None, val=None):
        k, v = self.peek()
        if k is None or (kind and k != kind) or (val and v != val):
            raise Unsupported("SQL predicate: expected %s %s, found %s %s" % (kind, val, k, v))
        self.i += 1
        return v

    def expr(self):
        l = self.and_()
        while self.peek() == ("kw", "OR"):
            self.eat()
            l = "(%s || %s)" % (l, self.and_())
        return l

    def and_(self):
        l = self.atom()
        while self.peek() == ("kw", "AND"):
            self.eat()
            l = "(%s && %s)" % (l, self.atom())
        return l

    def atom(self):
        if self.peek() == ("op", "("):
            # could be a parenthesised boolean or a parenthesised sum; try boolean first
            save = self.i
            self.eat()
            try:
                e = self.expr()
                self.eat("op", ")")
                return "(%s)" % e
            except Unsupported:
                self.i = save
        a = self.sum_()
        k, v = self.peek()
        if (k, v) == ("kw", "BETWEEN"):
            self.eat()
            lo = self.sum_()
            self.eat("kw", "AND")
            hi = self.sum_()
            return "(%s <= %s && %s <= %s)" % (lo, a, a, hi)
        if k == "op" and v in ("<=", ">=", "=", "<", ">", "!=", "<>"):
            self.eat()
            b = self.sum_()
            op = {"=": "==", "<>": "!="}.get(v, v)
            return "(%s %s %s)" % (a, op, b)
        # a bare integer column / expression used as a condition is "truthy": non-zero
        return "(%s != 0int)" % a

    def sum_(self):
        l = self.term()
        while self.peek()[0] == "op" and self.peek()[1] in "+-":
            op = self.eat()
            l = "(%s %s %s)" % (l, op, self.term())
        return l

    def term(self):
        k, v = self.peek()
        if k == "num":
            self.eat()
            return v + "int"
        if k == "col":
            self.eat()
            n = "c_" + v
            if n not in self.vars:
                self.vars.append(n)
            return n
        if k == "param":
            self.eat()
            n = "p_" + v
            if n not in self.vars:
                self.vars.append(n)
            return n
        if (k, v) == ("op", "("):
            self.eat()
            e = self.sum_()
            self.eat("op", ")")
            return "(%s)" % e
        raise Unsupported("SQL predicate: term expected, found %s %s" % (k, v))


def translate(pred_text, name, params=None):
    toks = tokenize(pred_text)
    p = P(toks)
    e = p.expr()
    if p.i != len(toks):
        raise Unsupported("SQL predicate: trailing tokens %s" % (toks[p.i:p.i + 4],))
    vars_ = p.vars
    if params:
        missing = [v for v in vars_ if v not in params]
        if missing:
            raise Unsupported("SQL predicate uses %s which the contract does not bind" % missing)
        vars_ = params
    sig = ", ".join("%s: int" % v for v in vars_)
    return "pub open spec fn %s(%s) -> bool {\n    %s\n}\n" % (name, sig, e), vars_
