#!/usr/bin/env python3
"""Regenerate MANIFEST.json from units.py + the per-property texts below (keeps the manifest valid)."""
import json, os, sys
HERE = os.path.dirname(os.path.abspath(__file__))
sys.path.insert(0, HERE)
import units as U
import manifest_texts as T

checks = []
for pid in sorted(U.UNITS):
    t = T.CLAIMS[pid]
    checks.append({
        "property_id": pid,
        "quick_cmd": "./check %s --tier quick" % pid,
        "thorough_cmd": "./check %s --tier thorough" % pid,
        "evidence_file": "/verif/evidence/%s.json" % pid,
        "replay_cmd_template": "./check %s --replay {path}" % pid,
        "engine": t.get("engine", "verus+kani"),
        "level_claimed": {"category": "proof", "text": t["text"], "design_ref": t.get("design_ref", "DESIGN.md §5/" + pid)},
        "level_note": t["note"],
        "technique": t["technique"],
    })
na = [{"property_id": p, "reason": r} for p, r in sorted(T.NOT_APPLICABLE.items()) if p not in U.UNITS]
m = {
    "version": 1,
    "setup_cmd": "./setup.sh",
    "hooks": T.HOOKS,
    "engines": [
        {"name": "verus", "path": "/verif/vx/verus.py", "serves_properties": sorted(U.UNITS), "kind_free_text": "Verus 0.2026.09.13 (Z3) on function text extracted from /repo on every run by /verif/vx/extract.py; contracts in /verif/specs/*.vrs"},
        {"name": "kani", "path": "/verif/vx/kani.py", "serves_properties": sorted(p for p in U.UNITS if any(u['kind']=='kani' for u in U.UNITS[p])), "kind_free_text": "Kani 0.68 / CBMC 6.11 on a harness crate whose functions are extracted from /repo on every run (real third-party crates from the cargo registry)"},
    ],
    "checks": checks,
    "not_applicable": na,
    "notes": T.NOTES,
}
json.dump(m, open(os.path.join(HERE, "MANIFEST.json"), "w"), indent=1)
print("MANIFEST.json: %d checks, %d not_applicable" % (len(checks), len(na)))
